"""C03 helper stream: the pure integer / list helpers of `panqec/utils.py` against `Model/UtilsPure.lean`
(`list_where`, `list_where_str`, `set_where`, `dict_where`, `nested_map`, `face_coords`, `edge_coords`,
`find_nearest` on integer data)."""
from __future__ import annotations

import warnings

import numpy as np

from harness.core import Stream


def _ints(v):
    v = [int(x) for x in v]
    return ','.join(map(str, v)) if v else '-'


def _rows(rows):
    rows = list(rows)
    return '|'.join(_ints(r) for r in rows) if rows else '_'


def _tuples(ts):
    ts = [tuple(int(x) for x in t) for t in ts]
    return '|'.join(','.join(map(str, t)) for t in ts) if ts else '_'


def _nl(x):
    if isinstance(x, list):
        return '[' + ','.join(_nl(y) for y in x) + ']'
    return str(int(x))


def run(fn):
    try:
        with warnings.catch_warnings():
            warnings.simplefilter('ignore')
            return fn()
    except Exception as e:  # noqa: BLE001
        return f'ERR {type(e).__name__}'


def rand_nested(rng, depth=0):
    if depth >= 3 or rng.random() < 0.35:
        return int(rng.integers(-9, 10))
    return [rand_nested(rng, depth + 1) for _ in range(int(rng.integers(0, 4)))]


def streams(ctx):
    from panqec import utils as U
    rng = ctx.np_rng(404)
    N = 4 if ctx.thorough else 1
    s = Stream('utils-pure-helpers')

    def add(op, fn, inp, tag, nontrivial=True):
        s.add('utl ' + op, run(fn), inp, nontrivial=nontrivial, tag=tag)

    # list_where / set_where / list_where_str on 1-D, 2-D, 3-D integer data
    for _ in range(120 * N):
        n = int(rng.integers(0, 15))
        v = [int(x) for x in rng.choice([0, 0, 1, 1, 2, -1], n)]
        add(f'where1 {_ints(v)}', lambda: _tuples(U.list_where(v)), {'list_where': v}, 'list_where-1d', any(v))
        add(f'where1 {_ints(v)}', lambda: _tuples(sorted(U.set_where(np.array(v, dtype=int)))), {'set_where': v}, 'set_where-1d', any(v))
        add(f'wherestr1 {_ints(v)}', lambda: '"' + U.list_where_str(v).replace(' ', '_') + '"', {'list_where_str': v},
            'list_where_str-1d', any(v))
        r, c = int(rng.integers(1, 5)), int(rng.integers(0, 14))
        m = [[int(x) for x in rng.choice([0, 0, 1, 3], c)] for _ in range(r)]
        add(f'where2 {_rows(m)}', lambda: _tuples(U.list_where(m)), {'list_where': m}, 'list_where-2d', any(any(x) for x in m))
        add(f'where2 {_rows(m)}', lambda: _tuples(sorted(U.set_where(m))), {'set_where': m}, 'set_where-2d', any(any(x) for x in m))
        add(f'wherestr2 {_rows(m)}', lambda: '"' + U.list_where_str(m).replace(' ', '_') + '"', {'list_where_str': m},
            'list_where_str-2d', any(any(x) for x in m))
        a, b, c3 = int(rng.integers(1, 4)), int(rng.integers(1, 4)), int(rng.integers(1, 4))
        t = [[[int(x) for x in rng.integers(0, 2, c3)] for _ in range(b)] for _ in range(a)]
        add('where3 ' + '/'.join(_rows(m2) for m2 in t), lambda: _tuples(U.list_where(t)), {'list_where': t}, 'list_where-3d')
    # dict_where
    for _ in range(80 * N):
        ks = [int(k) for k in rng.permutation(12)[:int(rng.integers(0, 9))]]
        vs = [int(x) for x in rng.choice([0, 0, 1, -1, 2], len(ks))]
        add(f'dictwhere {_ints(ks)} {_ints(vs)}', lambda: _ints(sorted(U.dict_where(dict(zip(ks, vs))))),
            {'dict_where': [ks, vs]}, 'dict_where', any(vs))
    # nested_map with an affine integer function
    for _ in range(80 * N):
        a, b = int(rng.integers(-3, 4)), int(rng.integers(-3, 4))
        x = rand_nested(rng)
        add(f'nestedmap {a} {b} {_nl(x)}', lambda: _nl(U.nested_map(lambda v: a * v + b)(x)), {'nested_map': [a, b, x]},
            'nested_map-' + ('list' if isinstance(x, list) else 'scalar'))
    # face_coords / edge_coords
    for _ in range(120 * N):
        k = int(rng.integers(0, 5))
        items = [[int(rng.integers(-3, 3))] + [int(x) for x in rng.integers(-4, 9, 3)] for _ in range(k)]
        size = [int(x) for x in rng.integers(1, 6, 3)]
        r = rng.random()
        tag = 'ok'
        if r < 0.1:
            size = [int(rng.integers(1, 6))]
            tag = 'size-1-broadcast'
        elif r < 0.2:
            size = [int(x) for x in rng.integers(1, 6, int(rng.choice([0, 2, 4])))]
            tag = 'size-bad-length'
        elif r < 0.3:
            size[int(rng.integers(0, 3))] = int(rng.choice([0, -2]))
            tag = 'size-zero-or-negative'
        elif r < 0.4 and items:
            items[int(rng.integers(0, k))][0] = int(rng.choice([3, -4, 7]))
            tag = 'axis-out-of-range'
        elif r < 0.5 and items:
            j = int(rng.integers(0, k))
            items[j] = items[j][:3] if rng.random() < 0.5 else items[j] + [1]
            tag = 'item-bad-length'
        for kind, fn in (('face', U.face_coords), ('edge', U.edge_coords)):
            add(f'{kind} {_rows(items)} {_ints(size)}',
                lambda: (lambda out: '|'.join(_ints(t) for t in out) if out else '_')(fn([tuple(i) for i in items], tuple(size))),
                {kind + '_coords': [items, size]}, f'{kind}_coords-{tag}', bool(items))
    add('face 0,1,2,3 4', lambda: '|'.join(_ints(t) for t in U.face_coords([(0, 1, 2, 3)], 4)),
        {'face_coords': [[[0, 1, 2, 3]], 4]}, 'face_coords-scalar-size')
    # find_nearest on 1-D integer data (first minimum wins)
    for _ in range(120 * N):
        n = int(rng.integers(0, 9))
        arr = [int(x) for x in rng.integers(-10, 11, n)]
        x = int(rng.integers(-12, 13))
        data = arr if rng.random() < 0.5 else np.array(arr, dtype=int)
        add(f'nearest {_ints(arr)} {x}', lambda: str(int(U.find_nearest(data, x))), {'find_nearest': [arr, x]},
            'find_nearest' + ('-empty' if not arr else ''), bool(arr))
    return [s.run()]
