"""C01 - every library code is a valid [[n,k]] stabilizer code."""
from __future__ import annotations

import numpy as np

from harness import codes as K
from harness import regen_codes as R
from harness.core import Stream
from harness.util import guarded, first_failures

ID = 'C01'
LEVEL = 'proof'
LEVEL_TEXT = ('Unbounded Lean theorems: (a) ALL SIZES of the hand-modelled classes (Properties/C01<Class>.lean, currently '
              'Toric2DCode L>=2, Planar2DCode and RotatedPlanar2DCode L>=1, Toric3DCode L>=2, Planar3DCode and '
              'RotatedPlanar3DCode L>=1, XCubeCode L>=2, Color666PlanarCode L>=1, Color488Code Lx,Ly>=1 (rectangular sizes '
              'included since the repair of get_logicals_x / get_logicals_z, whose column x=7 and row y=1 used the wrong side in '
              'their loop bounds; regression theorems old_rectangular_anticommutes / old_rectangular_invalid on the 2x3 lattice), '
              'Color666ToricCode LxL, '
              'L>=1 (qubit lists derived from the stabilizers; periodic identification proved canonical), RhombicPlanarCode '
              'Lx,Ly>=2 Lz>=1, RhombicToricCode all L_i even >=2, HollowPlanar3DCode L>=1 (with or without a cavity; logical Z = '
              'the membrane through the cavity, cross-section x = 3, since the repair of get_logicals_z), '
              'RotatedToric3DCode Lx,Ly>=2 not both odd, Lz>=1 (k=2 even x even, k=1 with a defect line; explicit family of '
              'n-k independent generators for both parities) -- all with the full valid_code incl. rank; Color3DCode all L_i '
              'even >= 2 (wf of the derived qubit list, commutation, the 9x9 pairing table of strings and membranes; periodic '
              'wrap removed through centred differences, overlaps as kernel-evaluated finite functions; Z-type half of the rank '
              'clause for every size: z_generators_independent_partial, 2 LxLyLz - 3 independent cell generators with a peeling '
              'order, evaluated on the implementation matrix each run; X-type half and full rank by instances), '
              'HollowRhombicCode Lx,Ly>=2, Lz>=3 (wf, commutation incl. the key-count selection rule of the triangle loop, '
              'pairing for every size; rank clause: EXACT CHARACTERISATION valid_iff_not_deficient - a size of the family is a '
              'valid [[n,1]] code (rank n-1) iff it is not Deficient, the decidable predicate "hole one layer thin in one '
              'direction and >= 2 cells wide in the two others": Lx=3, Ly,Lz>=6; Ly=4, Lx>=5, Lz>=6; Lz=4, Lx>=5, Ly>=6; '
              'negative side deficient_not_valid for EVERY deficient size: an undeclared second logical pair, rank <= n-2, '
              'not a valid code - the known finding; positive side valid_code for EVERY other size: the explicit family '
              'rankFamily is independent for every size (triangular operator probes) and has n-1 members on every '
              'non-deficient size (partition into boxes, checkerboard counts)): the assembled matrices '
              'exist and satisfy ValidCodeL n k (commutation, logical commutation, pairing table, GF(2) rank n-k) for every '
              'lattice size, with closed forms for n, k, stabilizers and get_deformation; (b) the executable validity checker '
              'is sound for every code; commutation+pairing force rank <= n-k for every code; every per-qubit permutation of '
              '{X,Y,Z} (any deformation a class can return) preserves validity (C08). Instance theorems for all 16 exported '
              'classes: every supported size up to the table bound (2-D: L<=6, 3-D: L<=4, rectangular/cuboid included, n<=400) '
              'is a valid code, kernel-checked (decide +kernel) on tables a translator regenerates from /repo on every run; the '
              'table of every deformation map any class returns is regenerated and proved to consist of permutations. Sizes '
              'beyond the table bound are evaluated natively with the same proved-sound checker. Hand models are tied to the '
              'classes by index-order differential runs of every getter on many sizes.')
LEVEL_NOTE = ('trusted: Lean kernel + standard axioms; the translator harness/regen_codes.py (evaluates the code\'s own '
              'constructors and packs the matrices; rank certificates are untrusted, Lean checks them); the correspondence '
              'harness for the hand-written lattice models; for sizes beyond the table bound the Lean compiler/runtime (native '
              'evaluation of the proved-sound checker, labelled native_checked); classes without a hand model are covered by the '
              'bounded instance theorems only (named ..._partial)')
TECHNIQUE = ('Lean 4 proof: checker soundness (unbounded) + kernel-checked instance theorems over tables regenerated '
             'from the source by a translator; native evaluation of the proved checker beyond the bound')
TRUSTED = ['translator harness/regen_codes.py (packs code.stabilizer_matrix / logicals_x / logicals_z / d as emitted by '
           'the current source)',
           'native_checked: sizes beyond the kernel table bound are evaluated by the compiled driver']
ASSUMPTIONS = ['supported lattice families as fixed in DESIGN.md section 4']


def lattice_modules():
    """hand-written all-sizes lattice models: harness/lattices/<name>.py, each with CLASS,
    LEAN_MODULES and streams(ctx)"""
    import importlib
    import pkgutil
    import harness.lattices as L
    return [importlib.import_module(f'harness.lattices.{m.name}') for m in pkgutil.iter_modules(L.__path__)]


PROPERTY_MODULES = ['PanqecVerif.Properties.C01'] + [lm for m in lattice_modules() for lm in m.LEAN_MODULES]


def regen(ctx):
    info = R.regen_instances()
    d = R.regen_deformations()
    per = {}
    for i in info['instances']:
        per.setdefault(i['class'], []).append('x'.join(map(str, i['size'])))
    return {'changed_tables': info['changed'], 'deformation_table_changed': d['changed'],
            'n_instances': len(info['instances']), 'deformation_rows': d['rows'],
            'instance_sizes': {k: ' '.join(v) for k, v in per.items()}}


# ---------------------------------------------------------- reference validity (Python)

def validity_clauses(code):
    """Independent statement-level check on the implementation's matrices.
    Returns None or (clause, detail)."""
    n = code.n
    H = np.array(K.dense(code.stabilizer_matrix), dtype=np.int64) if code.n_stabilizers else np.zeros((0, 2 * n), np.int64)
    LX = np.array(K.dense(code.logicals_x), dtype=np.int64).reshape(-1, 2 * n)
    LZ = np.array(K.dense(code.logicals_z), dtype=np.int64).reshape(-1, 2 * n)
    k = LX.shape[0]
    if LZ.shape[0] != k:
        return 'k', f'{k} logical X but {LZ.shape[0]} logical Z'
    if code.k != k:
        return 'k', 'code.k differs from the number of logical X operators'

    def sp(A, B):
        return (A[:, :n] @ B[:, n:].T + A[:, n:] @ B[:, :n].T) % 2
    c = sp(H, H)
    if c.any():
        i, j = np.argwhere(c)[0]
        return 'stabilizers-commute', f'generators {int(i)} and {int(j)} anticommute'
    for nm, L in (('X', LX), ('Z', LZ)):
        c = sp(L, H)
        if c.any():
            i, j = np.argwhere(c)[0]
            return 'logicals-commute-with-stabilizers', f'logical {nm}_{int(i)} anticommutes with generator {int(j)}'
    c = sp(LX, LZ)
    if not np.array_equal(c, np.eye(k, dtype=np.int64)):
        i, j = np.argwhere(c != np.eye(k, dtype=np.int64))[0]
        return 'pairing', f'X_{int(i)} and Z_{int(j)}: product {int(c[i, j])}'
    if sp(LX, LX).any() or sp(LZ, LZ).any():
        return 'pairing', 'two logical X (or two logical Z) anticommute'
    rows = [K.pack(r) for r in H]
    rank = len(R.rank_certificate(rows, n)[0]) if rows else 0
    if rank != n - k:
        return 'rank', f'rank {rank} but n-k = {n - k}'
    return None


def check_case(c):
    try:
        code = K.build(c['class'], tuple(c['size']), (c['deform'][0], c['deform'][1]), reuse=bool(c.get('reuse')))
        r = validity_clauses(code)
    except Exception as e:  # noqa
        return f'raised {type(e).__name__}: {e}'
    if r:
        return f'{r[0]}: {r[1]}' + (' (object used and deformed before this deformation)' if c.get('reuse') else '')
    return None


def cases_for(ctx, deep):
    rng = ctx.np_rng(11)
    cases = []
    for cls in K.CLASSES:
        sizes = R.instance_sizes(cls)
        defs = K.deformations(cls)
        if not deep:
            small = [s for s in sizes if K.qubit_count(cls, s) <= 120]
            sizes_u = small
            sizes_d = [small[i] for i in sorted(rng.choice(len(small), min(len(small), 5), replace=False))]
        else:
            sizes_u = sizes
            sizes_d = sizes
        for s in sizes_u:
            cases.append({'class': cls, 'size': list(s), 'deform': [None, {}]})
        for s in sizes_d:
            for d in defs[1:]:
                cases.append({'class': cls, 'size': list(s), 'deform': [d[0], d[1]]})
        for s in sizes_d[:2]:
            for d in defs[1:]:
                cases.append({'class': cls, 'size': list(s), 'deform': [d[0], d[1]], 'reuse': True})
        if deep:
            bigger = K.all_sizes(cls, 8 if K.dimension(cls) == 2 else 5, n_max=700)
            extra = [s for s in bigger if s not in sizes]
            for s in [extra[i] for i in sorted(rng.choice(len(extra), min(len(extra), 6), replace=False))] if extra else []:
                d = defs[int(rng.integers(0, len(defs)))]
                cases.append({'class': cls, 'size': list(s), 'deform': [d[0], d[1]]})
    # documented-but-unsupported sizes (where known findings live); the rectangular sizes of
    # Color488Code are ordinary supported sizes (table sizes above) since the repair of its logicals
    for cls in ('Color666ToricCode',):
        for s in ((1, 2), (2, 1), (2, 3), (3, 2)):
            cases.append({'class': cls, 'size': list(s), 'deform': [None, {}], 'nonsquare': True})
    # inside the supported family, beyond the table bound: a known rank deficiency
    cases.append({'class': 'HollowRhombicCode', 'size': [3, 6, 6], 'deform': [None, {}], 'large_hollow': True})
    if deep:   # one member of each of the other two deficient families (predicate Deficient)
        cases.append({'class': 'HollowRhombicCode', 'size': [5, 4, 6], 'deform': [None, {}], 'large_hollow': True})
        cases.append({'class': 'HollowRhombicCode', 'size': [5, 6, 4], 'deform': [None, {}], 'large_hollow': True})
    # non-deficient sizes with a hole beyond the table bound (thin, thick, slab): valid codes (theorem valid_code)
    for s in ((3, 5, 5), (4, 5, 5), (4, 5, 4)) + (((3, 5, 7), (4, 4, 7), (5, 5, 4), (4, 6, 5)) if deep else ()):
        cases.append({'class': 'HollowRhombicCode', 'size': list(s), 'deform': [None, {}]})
    return cases


def match_key(c):
    if c.get('nonsquare'):
        return {'class': c['class'], 'size_class': 'L_x != L_y'}
    if c.get('large_hollow'):
        return {'class': c['class'], 'size_class': 'some L_i >= 6'}
    return {'class': c['class'], 'size': c['size'], 'deform': c['deform'][0], 'reuse': bool(c.get('reuse'))}


def oracle(ctx, deep=False, broken=None):
    cases = cases_for(ctx, deep)
    fails = first_failures(cases, check_case, key=match_key)
    # one replay per class is enough
    seen, out = set(), []
    for f in fails:
        k = (f['input']['class'], bool(f['input'].get('nonsquare')), bool(f['input'].get('large_hollow')))
        if k in seen:
            continue
        seen.add(k)
        out.append(f)
    return out, {'evaluations': len(cases)}


def replay(ctx, payload):
    return check_case(payload['input']) is not None


# ------------------------------------------------------------- correspondence

def nat_list(xs):
    xs = list(xs)
    return ','.join(str(int(x)) for x in xs) if xs else '-'


def correspondence(ctx):
    """The proved-sound Lean checker, natively evaluated by the driver on matrices taken from
    the live implementation (deformed codes of every name/axis, and sizes beyond the kernel
    table), against the independent Python validity check."""
    rng = ctx.np_rng(12)
    s = Stream('native-checker-vs-reference')
    for cls in K.CLASSES:
        inst = R.instance_sizes(cls)
        defs = K.deformations(cls)
        chosen = []
        small = [x for x in inst if K.qubit_count(cls, x) <= (400 if ctx.thorough else 150)]
        for d in defs:
            pick = [small[i] for i in sorted(rng.choice(len(small), min(len(small), 6 if ctx.thorough else 2),
                                                        replace=False))]
            chosen += [(x, d) for x in pick]
        bigger = [x for x in K.all_sizes(cls, 8 if K.dimension(cls) == 2 else 5, n_max=900 if ctx.thorough else 500)
                  if x not in inst]
        if bigger:
            for i in sorted(rng.choice(len(bigger), min(len(bigger), 5 if ctx.thorough else 1), replace=False)):
                chosen.append((bigger[i], defs[int(rng.integers(0, len(defs)))]))
        for size, d in chosen:
            label = f'{cls}{tuple(size)}/{K.deform_tag(d)}'
            try:
                code = K.build(cls, size, d)
                n = code.n
                H = [K.pack(r) for r in K.dense(code.stabilizer_matrix)] if code.n_stabilizers else []
                LX = [K.pack(r) for r in K.dense(code.logicals_x)]
                LZ = [K.pack(r) for r in K.dense(code.logicals_z)]
                k = len(LX)
                dd = int(code.d)
                bidx, dual, combo = R.rank_certificate(H, n)
                ref = validity_clauses(code)
                ws = [bin((v & ((1 << n) - 1)) | (v >> n)).count('1') for v in LX + LZ]
                dist_ok = bool(ws) and min(ws) == dd
                ans = f"{0 if ref else 1} {0 if ref else 1} {1 if dist_ok else 0}"
            except Exception as e:  # noqa
                s.add('bad-op construct ' + label.replace(' ', ''), f'EXC:{type(e).__name__}', {'code': label},
                      tag='construct-fail')
                continue
            op = (f'checkvalid {n} {k} {dd} {nat_list(H)} {nat_list(LX)} {nat_list(LZ)} '
                  f'{nat_list(bidx)} {nat_list(dual)} {nat_list(combo)}')
            s.add(op, ans, {'code': label, 'n': n, 'k': k, 'reference': ref},
                  tag=cls + ('' if size in inst else ':beyond-table'))
    out = [s.run()]
    for m in lattice_modules():
        out.extend(m.streams(ctx))
    return out
