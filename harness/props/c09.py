"""C09 - matching is exactly minimum-weight; correctable sets are always corrected."""
from __future__ import annotations

import itertools
import warnings

import numpy as np

from harness.core import Stream
from harness.util import vec, stack, first_failures, guarded
from harness.props import c05 as D

ID = 'C09'
LEVEL = 'proof'
LEVEL_TEXT = ('Lean theorems, unbounded: (a) for positive flip / no-flip likelihoods, minimum total weight '
              'sum_i w_i c_i with w_i = -log(a_i/b_i) over ANY set of candidate corrections is equivalent to maximum '
              'likelihood prod_i a_i^c_i b_i^(1-c_i) (real logarithm; instances a=P,b=1-P and the literal get_weights '
              'formula with eps); marginals below 1/2 give positive weights; (b) for every CSS parity-check matrix, a '
              'valid minimum-weight solver under uniform positive weights and sector distances >= 2t+1 imply that '
              'every error with at most t flips per sector (every Pauli error of weight <= t) is corrected up to a '
              'trivial operator of each sector and error+correction is in the code space; (c) X corrections come from '
              '(Hz, w_x, Z-row syndrome) and Z corrections from (Hx, w_z, X-row syndrome) - proved on the model glue, '
              'which is tied to the code by boundary spies under biased and deformed noise.')
LEVEL_NOTE = ('PARTIAL, bounded replay only (tests, not proofs): PyMatching\'s optimality itself (third-party contract; '
              'tested against the full coset of solutions on lattices with n <= 13 under biased and XZZX-deformed '
              'weights); matching and union-find correct all Pauli errors of weight <= floor((d-1)/2) on '
              'Toric2D/Planar2D/RotatedPlanar2D up to 5x5 (exhaustive up to 4x4, sampled 5x5 in the quick tier; '
              'union-find: uf_support.py is modelled and proved to reproduce the syndrome (C05), its t-correction claim is '
              'decided by replay only); sweep-match corrects every '
              'single-qubit Pauli error on Toric3DCode (all L_i >= 3: 3x3x3, 3x4x3 quick; 3x4x5, 4x4x4 thorough) and '
              'RotatedPlanar3DCode (3x3x3, 4x4x3 quick; 5x5x3 thorough) - DESIGN section 5 C09 scope notes: d >= 3 only, '
              'Planar3DCode is not a home lattice. Distances are premises (C17); "trivial operator => is_success" is C04.')
TECHNIQUE = ('Lean 4 proof (Mathlib Real.log; induction over lists; counting argument for t-correction) + boundary-spy '
             'correspondence of the glue + exhaustive low-weight / coset replay on the implementation')
TRUSTED = ['PyMatching returns a minimum-weight solution (contract; tested against the full coset on small lattices)',
           'code distances of the 2-D lattices are as reported by code.d (C17)']
ASSUMPTIONS = ['per-qubit flip marginals px+py, pz+py are in (0, 1/2)',
               'eps = 1e-20 in get_weights is a numerical guard: the theorem is stated for arbitrary positive (a_i, b_i), '
               'which covers both eps = 0 and the literal formula']
ANCHOR_FILES = ['panqec/decoders/matching/_matching_decoder.py', 'panqec/decoders/union_find/uf_support.py',
                'panqec/decoders/sweepmatch/_sweep_match_decoder.py',
                'panqec/decoders/sweepmatch/_rotated_sweep_match_decoder.py',
                'panqec/error_models/_base_error_model.py']

warnings.filterwarnings('ignore')

BIASED = [((0.125, 0.125, 0.75), None), ((0.75, 0.125, 0.125), None), ((0.0, 0.0, 1.0), None),
          ((0.125, 0.125, 0.75), 'XZZX'), ((0.0, 0.25, 0.75), 'XY'), ((0.25, 0.25, 0.5), None)]
MATCH_CODES = ['Toric2DCode', 'Planar2DCode', 'RotatedPlanar2DCode']


def low_weight_errors(n, w, rng=None, limit=None):
    """all Pauli errors of weight exactly w as (x-support, z-support); sampled when limit is given"""
    supports = itertools.combinations(range(n), w)
    allp = [(supp, ps) for supp in supports for ps in itertools.product('XYZ', repeat=w)]
    if limit is not None and len(allp) > limit:
        idx = sorted(rng.choice(len(allp), limit, replace=False))
        allp = [allp[i] for i in idx]
    out = []
    for supp, ps in allp:
        xs = [int(q) for q, p in zip(supp, ps) if p in 'XY']
        zs = [int(q) for q, p in zip(supp, ps) if p in 'ZY']
        out.append([xs, zs])
    return out


# ------------------------------------------------------------------ correspondence

def correspondence(ctx):
    rng = ctx.np_rng(9)
    thorough = ctx.thorough
    streams = []

    # --- (c) pairing under biased / deformed noise: model glue replayed on PyMatching's recorded answers
    s = Stream('pairing-biased-noise')
    for cname in MATCH_CODES:
        for size in ([(2, 3), (3, 3), (3, 4), (4, 4), (4, 3)] if thorough else [(2, 3), (3, 3), (3, 4)]):
            code = D.make_code(cname, size)
            n = code.n
            for (d, nd) in BIASED:
                p = D.RATES[int(rng.integers(0, len(D.RATES)))]
                errs = []
                for w in (1, 2, 3):
                    errs += low_weight_errors(n, w, rng, 2)
                hist = D.syndromes_of(code, [D.error_from(n, xs, zs) for xs, zs in errs])
                spec = {'decoder': 'MatchingDecoder', 'code': cname, 'size': list(size), 'direction': list(d),
                        'noise_deformation': nd, 'p': p}
                D.decoder_case(s, spec, hist, f'{cname}:{nd or "undeformed"}')
    # sweep-match: X part from matching, Z part from the (black-box) sweeper
    for dname, cname, size in (('SweepMatchDecoder', 'Toric3DCode', (3, 3, 3)),
                               ('RotatedSweepMatchDecoder', 'RotatedPlanar3DCode', (3, 3, 3))):
        code = D.make_code(cname, size)
        n = code.n
        for (d, nd) in (((0.125, 0.125, 0.75), None), ((0.25, 0.25, 0.5), 'XZZX')):
            errs = low_weight_errors(n, 1, rng, 6)
            hist = D.syndromes_of(code, [D.error_from(n, xs, zs) for xs, zs in errs])
            D.decoder_case(s, {'decoder': dname, 'code': cname, 'size': list(size), 'direction': list(d),
                               'noise_deformation': nd, 'p': 0.0625}, hist, f'{dname}:{cname}')
    streams.append(s.run())

    # --- the vocabulary of the theorems (sector products, Hamming weight, CSS blocks) against numpy
    s = Stream('spec-vocabulary')
    for cname in MATCH_CODES + ['Toric3DCode', 'RotatedPlanar3DCode', 'Color666PlanarCode']:
        for size in D.SIZES[cname][:2]:
            code = D.make_code(cname, size)
            n = code.n
            H = D.H_text(code)
            Hx, Hz = D.dense(code.Hx), D.dense(code.Hz)
            for _ in range(6 if thorough else 3):
                v = rng.integers(0, 2, 2 * n).astype('uint8')
                if rng.random() < 0.3:
                    v[:n] = 0
                def blocks():
                    sy = code.measure_syndrome(v)
                    return ' '.join([D.ivec(code.extract_x_syndrome(sy)), D.ivec((Hx @ v[n:].astype(int)) % 2),
                                     D.ivec(code.extract_z_syndrome(sy)), D.ivec((Hz @ v[:n].astype(int)) % 2)])
                s.add(f'dec.blocks {H} {vec(v)}', guarded(blocks),
                      {'code': cname, 'size': list(size), 'v': [int(x) for x in v]}, tag='blocks',
                      nontrivial=bool(v.any()))
                x = v[:n]
                s.add(f'dec.sector {stack(Hz.tolist())} {vec(x)}', guarded(lambda: D.ivec((Hz @ x.astype(int)) % 2)),
                      {'code': cname, 'size': list(size), 'x': [int(t) for t in x]}, tag='sector',
                      nontrivial=bool(x.any()))
                s.add(f'dec.hwt {vec(x)}', guarded(lambda: str(int(np.count_nonzero(x)))),
                      {'x': [int(t) for t in x]}, tag='hwt', nontrivial=bool(x.any()))
    streams.append(s.run())
    return streams


# ------------------------------------------------------------------ oracle

_cache = {}


def _setup(case):
    key = (case['decoder'], case['code'], tuple(case['size']), tuple(case['direction']),
           case.get('noise_deformation'), case['p'])
    if key not in _cache:
        if len(_cache) > 8:
            _cache.clear()
        code = D.make_code(case['code'], case['size'])
        em = D.make_noise(case['direction'], case.get('noise_deformation'))
        with D.quiet():
            dec = D.make_decoder(case['decoder'], code, em, case['p'])
        code.logicals_x, code.logicals_z  # noqa: B018
        _cache[key] = (code, em, dec)
    return _cache[key]


def _coset_tables(code):
    key = ('coset', code.id, tuple(code.size))
    if key not in _cache:
        n = code.n
        allv = np.array(list(itertools.product([0, 1], repeat=n)), dtype=np.int64)
        Hz, Hx = D.dense(code.Hz) % 2, D.dense(code.Hx) % 2
        _cache[key] = (allv, (allv @ Hz.T) % 2, (allv @ Hx.T) % 2)
    return _cache[key]


def _stated_marginals(code, case):
    """(pi, px, py, pz) per qubit written from the statement of the channel (not read from the implementation):
    (1-p, p r_x, p r_y, p r_z) relabelled by the code's deformation dictionary"""
    from harness.props import c07 as N
    from fractions import Fraction
    p = Fraction(case['p']).limit_denominator(1 << 20)
    r = [Fraction(x).limit_denominator(1 << 20) for x in case['direction']]
    words = N.deformation_words(code, case.get('noise_deformation'), case.get('noise_kwargs') or {})
    ds = [N.stated_dist(p, r, None if words is None else words[i]) for i in range(code.n)]
    return tuple(np.array([float(d[s_]) for d in ds]) for s_ in 'IXYZ')


def check_case(case):
    kind = case['kind']
    if kind == 'coset-optimality-siblings':
        # decoders for sibling noise models (same direction, rate, deformation name; different deformation
        # kwargs) are built one after the other in this process on one code object; each must be minimum
        # weight for ITS model (reference weights from the statement, not from the implementation)
        from panqec.error_models import PauliErrorModel
        try:
            code = D.make_code(case['code'], case['size'])
            code.logicals_x, code.logicals_z  # noqa: B018
            for kw in case['siblings']:
                em = PauliErrorModel(*case['direction'], deformation_name=case['noise_deformation'],
                                     deformation_kwargs=dict(kw))
                with D.quiet():
                    dec = D.make_decoder('MatchingDecoder', code, em, case['p'])
                sub = dict(case, kind='coset-optimality', noise_kwargs=kw, _stated=True)
                msg = _check_with(sub, code, em, dec)
                if msg:
                    return f'decoder for deformation kwargs {kw} (built after {case["siblings"][:case["siblings"].index(kw)]}): {msg}'
        except Exception as ex:  # noqa: BLE001
            return f'raised {type(ex).__name__}: {str(ex)[:120]}'
        return None
    try:
        code, em, dec = _setup(case)
        return _check_with(case, code, em, dec)
    except Exception as ex:  # noqa: BLE001
        return f'raised {type(ex).__name__}: {str(ex)[:120]}'


def _check_with(case, code, em, dec):
    kind = case['kind']
    try:
        n = code.n
        for (xs, zs) in case['errors']:
            e = D.error_from(n, xs, zs)
            s = code.measure_syndrome(e)
            with D.quiet(), D.time_limit():
                c = np.asarray(dec.decode(s))
            if kind == 'coset-optimality':
                # reference weights computed here from the per-qubit marginals (not through get_weights)
                _, px, py, pz = _stated_marginals(code, case) if case.get('_stated') else \
                    em.probability_distribution(code, case['p'])
                wx = np.log((1 - (px + py)) / (px + py))
                wz = np.log((1 - (pz + py)) / (pz + py))
                allv, sxz, sxx = _coset_tables(code)
                Hz, Hx = D.dense(code.Hz) % 2, D.dense(code.Hx) % 2
                for (half, w, tab, M, part) in ((c[:n], wx, sxz, Hz, e[:n]), (c[n:], wz, sxx, Hx, e[n:])):
                    target = (M @ part.astype(np.int64)) % 2
                    feas = (tab == target).all(axis=1)
                    if not np.array_equal((M @ half.astype(np.int64)) % 2, target):
                        return f'PyMatching answer is not a solution for error x={xs} z={zs}'
                    best = float((allv[feas] @ w).min())
                    got = float(half.astype(np.int64) @ w)
                    if got > best + 1e-5 * max(1.0, abs(best)):   # PyMatching discretises weights (~2^-24 relative)
                        return (f'correction weight {got:.6f} exceeds the coset minimum {best:.6f} '
                                f'for error x={xs} z={zs}')
            else:
                if not code.is_success((c + e) % 2):
                    return f'error x={xs} z={zs} (weight <= t) is not corrected'
    except Exception as ex:  # noqa: BLE001
        return f'raised {type(ex).__name__}: {str(ex)[:120]}'
    return None


def oracle_cases(ctx, deep):
    rng = ctx.np_rng(31)
    cases = []
    uniform = [1 / 3, 1 / 3, 1 / 3]
    # (ii) all Pauli errors of weight <= t = floor((d-1)/2), uniform weights
    sizes2 = [(3, 3), (3, 4), (4, 3), (4, 4), (3, 5), (5, 5)] + ([(4, 5), (5, 4)] if deep else [])
    for dname, codes in (('MatchingDecoder', MATCH_CODES), ('UnionFindDecoder', ['Toric2DCode'])):
        for cname in codes:
            for size in sizes2:
                code = D.make_code(cname, size)
                n, t = code.n, (int(code.d) - 1) // 2
                errs = []
                for w in range(1, t + 1):
                    limit = None
                    if w >= 2 and not deep:
                        limit = 250 if dname == 'UnionFindDecoder' else 1500
                    if w >= 2 and deep and dname == 'UnionFindDecoder':
                        limit = 6000
                    errs += low_weight_errors(n, w, rng, limit)
                if dname == 'UnionFindDecoder' and not deep and len(errs) > 400:
                    errs = [errs[i] for i in sorted(rng.choice(len(errs), 400, replace=False))]
                cases.append({'kind': 'weight-le-t', 'decoder': dname, 'code': cname, 'size': list(size),
                              'direction': uniform, 'p': 0.1, 't': t, 'errors': errs})
    # (i) contract test: PyMatching's answer is minimum weight within the full coset
    for cname, size in (('Toric2DCode', (2, 2)), ('Toric2DCode', (2, 3)), ('Planar2DCode', (2, 3)),
                        ('Planar2DCode', (3, 3)), ('RotatedPlanar2DCode', (3, 3)), ('RotatedPlanar2DCode', (3, 4))):
        code = D.make_code(cname, size)
        n = code.n
        for (d, nd) in (BIASED if deep else BIASED[:4]):
            if d[0] + d[1] == 0 or d[2] + d[1] == 0:
                continue    # a zero marginal gives weight 46 on every edge of that sector: nothing to compare
            em = D.make_noise(d, nd)
            errs = [D.supports(e, n) for e in D.random_errors(code, em, rng, 40 if deep else 16,
                                                              rates=(0.1, 0.2, 0.35))]
            errs += low_weight_errors(n, 1, rng, 12)
            cases.append({'kind': 'coset-optimality', 'decoder': 'MatchingDecoder', 'code': cname,
                          'size': list(size), 'direction': list(d), 'noise_deformation': nd, 'p': 0.2,
                          'errors': errs})
    # (i') sibling noise models in one process: XZZX along each axis the class offers, biased direction
    for cname, size in (('Toric2DCode', (2, 3)), ('Planar2DCode', (2, 3)), ('RotatedPlanar2DCode', (3, 3))):
        code = D.make_code(cname, size)
        em0 = D.make_noise((0.125, 0.125, 0.75))
        errs = [D.supports(e, code.n) for e in D.random_errors(code, em0, rng, 30 if deep else 14, rates=(0.15, 0.3))]
        errs += low_weight_errors(code.n, 1, rng, 10)
        for sibs in ([{'deformation_axis': 'x'}, {'deformation_axis': 'y'}], [{'deformation_axis': 'y'}, {'deformation_axis': 'x'}]):
            cases.append({'kind': 'coset-optimality-siblings', 'decoder': 'MatchingDecoder', 'code': cname,
                          'size': list(size), 'direction': [0.125, 0.125, 0.75], 'noise_deformation': 'XZZX',
                          'siblings': sibs, 'p': 0.2, 'errors': errs})
    # (iii) sweep-match corrects every single-qubit Pauli error on its home lattices (d >= 3)
    home = [('SweepMatchDecoder', 'Toric3DCode', [(3, 3, 3), (3, 4, 3)] + ([(3, 4, 5), (4, 4, 4)] if deep else [])),
            ('RotatedSweepMatchDecoder', 'RotatedPlanar3DCode',
             [(3, 3, 3), (4, 4, 3)] + ([(5, 5, 3)] if deep else []))]
    for dname, cname, sizes in home:
        for size in sizes:
            code = D.make_code(cname, size)
            cases.append({'kind': 'single-qubit', 'decoder': dname, 'code': cname, 'size': list(size),
                          'direction': uniform, 'p': 0.1, 'errors': low_weight_errors(code.n, 1)})
    return cases


def match_key(c):
    return {'kind': c['kind'], 'decoder': c['decoder'], 'code': c['code']}


def shrink(case):
    for e in case['errors'][: (3 if D._k(match_key, case) in D.TIMED_OUT else None)]:
        c1 = dict(case, errors=[e])
        if check_case(c1) is not None:
            return c1
    return case


def oracle(ctx, deep=False, broken=None):
    cases = oracle_cases(ctx, deep)
    D.TIMED_OUT.clear()
    fails = first_failures(cases, D.bounded(check_case, match_key), key=match_key)
    for f in fails:
        f['input'] = shrink(f['input'])
        f['observed'] = check_case(f['input']) or f['observed']
    info = {'evaluations': sum(len(c['errors']) for c in cases)}
    for k in ('weight-le-t', 'coset-optimality', 'single-qubit'):
        info[k + ' errors replayed (tested, bounded)'] = sum(len(c['errors']) for c in cases if c['kind'] == k)
    return fails, info


def replay(ctx, payload):
    _cache.clear()
    return check_case(payload['input']) is not None
