"""C18, second part: the body of SplittingSimulation (the chain of `_run` / `get_next_error` and the
estimator `compute_optimal_c` / `compute_logical_probabilities` / `get_results`).

Correspondence: the real class is run with numpy's global generator scripted (`numpy.random.choice` is the
only sampling call of the class) and every observable of every `get_next_error` call recorded by spies;
the compiled Lean model (`Model/Splitting.lean`, ops `sp.run`, `sp.est`) replays the same draws.
A different sampling mechanism raises `StubMismatch`: correspondence broken, never a failing input.

Oracle kinds (implementation only): `chain-step` (every accepted / rejected move of a real run uses
min(1, likelihood ratio) of the stated per-qubit channel and only moves to failing errors), `chain-stat`
(the long-run occupation of a seeded real chain against the stated distribution restricted to the
failure set: skipped, see `oracle_cases`), `estimator` (the product estimator on samples drawn exactly
from the stationary distributions against the exact failure probabilities).
"""
from __future__ import annotations

import contextlib
import io
import itertools
import math
import warnings
from fractions import Fraction
from unittest import mock

import numpy as np

from harness.util import vec, stack
from harness.props.c07 import fr, rs, parse_rat, make_code, make_model, deformation_words, stated_dist

LETTERS = 'IXYZ'

warnings.filterwarnings('ignore')


class StubMismatch(Exception):
    """the class sampled through something else than the three `numpy.random.choice` calls per step
    that the scripted generator stands in for: another sampling mechanism, not a violation by itself"""


class ForbiddenRng:
    """handed to the constructor as `rng`: the class as it is never touches it"""

    def __getattr__(self, name):
        raise StubMismatch(f'rng.{name} requested')


# ------------------------------------------------------------------ decoders used by the streams

class ZeroDecoder:
    id = 'ZeroDecoder'
    label = 'zero'
    params: dict = {}

    def __init__(self, code, error_model, error_rate, salt=0):
        self.n = code.n

    def decode(self, syndrome, **kw):
        return np.zeros(2 * self.n, dtype=np.uint8)


class HashDecoder:
    """a fixed pseudo-random function of the syndrome (mostly not a valid correction): exercises the
    `not in_codespace` branch of the test"""
    id = 'HashDecoder'
    label = 'hash'
    params: dict = {}

    def __init__(self, code, error_model, error_rate, salt=0):
        self.n = code.n
        self.salt = salt

    def decode(self, syndrome, **kw):
        import hashlib
        h = hashlib.sha256(bytes([self.salt % 256]) + bytes(int(x) for x in syndrome)).digest()
        bits = np.unpackbits(np.frombuffer(h * (1 + 2 * self.n // 256), dtype=np.uint8))[:2 * self.n]
        keep = np.unpackbits(np.frombuffer(__import__('hashlib').sha256(h).digest() * (1 + 2 * self.n // 256),
                                           dtype=np.uint8))[:2 * self.n]
        return (bits & keep).astype(np.uint8)


class CosetDecoder:
    """minimum-weight decoder by table (exact, deterministic): returns a lowest-weight error with the
    given syndrome, ties broken by enumeration order"""
    id = 'CosetDecoder'
    label = 'coset'
    params: dict = {}

    def __init__(self, code, error_model, error_rate, salt=0):
        n = code.n
        H = code.stabilizer_matrix.toarray().astype(int)
        Hs = np.hstack([H[:, n:], H[:, :n]])
        best = {}
        for bits in itertools.product((0, 1), repeat=2 * n):
            e = np.array(bits)
            key = tuple((Hs @ e) % 2)
            w = int(np.sum(e[:n] | e[n:]))
            if key not in best or w < best[key][0]:
                best[key] = (w, e.astype(np.uint8))
        self.table = best

    def decode(self, syndrome, **kw):
        return self.table[tuple(int(x) for x in syndrome)][1].copy()


DECODERS = {'zero': ZeroDecoder, 'hash': HashDecoder, 'coset': CosetDecoder}


def make_decoder(kind, code, em, p, salt=0):
    if kind == 'matching':
        from panqec.decoders import MatchingDecoder
        return MatchingDecoder(code, em, float(p))
    return DECODERS[kind](code, em, float(p), salt=salt)


class DecoderFailure(Exception):
    """the decoder itself raised: decoders are a parameter here (their validity is C05)"""


class SpyDecoder:
    def __init__(self, inner):
        self._inner = inner
        self.calls = []

    def decode(self, syndrome, **kw):
        try:
            c = self._inner.decode(syndrome, **kw)
        except Exception as e:  # noqa
            raise DecoderFailure(f'{type(e).__name__}: {e}') from e
        self.calls.append(([int(x) for x in syndrome], [int(x) for x in c]))
        return c

    def __getattr__(self, name):
        return getattr(self._inner, name)


# ------------------------------------------------------------------ the scripted run

EXC = [('Error rate must be in', 'ERR:rate'), ('cannot be empty', 'ERR:noLetters'),
       ('does not fail', 'ERR:initSucceeds'), ('`vectorize` on size 0', 'ERR:emptySamples')]


def exc_token(e):
    if isinstance(e, (StubMismatch, DecoderFailure)):
        raise e
    msg = str(e)
    if isinstance(e, ValueError):
        for frag, tok in EXC:
            if frag in msg:
                return tok
        return f'EXC:ValueError:{msg[:60]}'
    if isinstance(e, NotImplementedError):
        return 'ERR:notImplemented'
    if isinstance(e, IndexError):
        return 'ERR:index'
    if isinstance(e, ZeroDivisionError):
        return 'ERR:zeroDiv'
    if isinstance(e, TypeError):
        return 'ERR:type'
    return f'EXC:{type(e).__name__}:{msg[:60]}'


class Script:
    """stands in for numpy's global generator: the k-th `get_next_error` call uses `draws[k]`"""

    def __init__(self, draws):
        self.draws = list(draws)
        self.k = 0          # index of the current draw
        self.phase = 0      # which of the three calls comes next
        self.steps = []     # records, one per get_next_error call
        self.cur = None

    def choice(self, a, size=None, replace=True, p=None):
        if size is not None or self.cur is None:
            raise StubMismatch('numpy.random.choice used outside the three calls of get_next_error')
        if self.k >= len(self.draws):
            raise StubMismatch('more draws requested than scripted')
        idx, pos, u = self.draws[self.k]
        if self.phase == 0 and p is None and isinstance(a, (int, np.integer)):
            if not idx < int(a):
                raise StubMismatch('population of the first draw is not the number of qubits')
            self.phase = 1
            self.cur['idx'] = idx
            return idx
        if self.phase == 1 and p is None and not isinstance(a, (int, np.integer)):
            a = list(a)
            self.cur['letters'] = ''.join(str(x) for x in a)
            if len(a) == 0:
                raise ValueError("'a' cannot be empty unless no samples are taken")
            self.phase = 2
            self.cur['letter'] = str(a[pos % len(a)])
            return np.str_(a[pos % len(a)])
        if self.phase == 2 and p is not None and list(a) == [0, 1]:
            pp = np.asarray(p, dtype=float)
            self.cur['q'] = float(pp[1])
            cdf = np.cumsum(pp)
            cdf = cdf / cdf[-1]
            b = int(np.searchsorted(cdf, float(u), side='right'))
            self.cur['coin'] = b
            self.phase = 0
            self.k += 1
            return b
        raise StubMismatch('numpy.random.choice called in another pattern than index, letter, coin')


def forbidden(name):
    def f(*a, **kw):
        raise StubMismatch(f'numpy.random.{name} requested')
    return f


class UStub:
    """what `np.random.default_rng()` returns inside `run_once` (calculate_logical_error_rate)"""

    def __init__(self, us):
        self.us = [float(u) for u in us]
        self.i = 0

    def random(self, size=None, *a, **kw):
        m = 1 if size is None else int(np.prod(size))
        if self.i + m > len(self.us):
            raise StubMismatch('more variates requested than scripted')
        xs = self.us[self.i:self.i + m]
        self.i += m
        return xs[0] if size is None else np.array(xs, dtype=float).reshape(size)

    def __getattr__(self, name):
        raise StubMismatch(f'Generator.{name} requested')


def build(case):
    code = make_code(case['code'], tuple(case['size']))
    r = [parse_rat(x) for x in case['r']]
    em = make_model(r, case.get('deformation'), case.get('kwargs'))
    rates_in = [parse_rat(x) for x in case['rates']]
    decs = [SpyDecoder(make_decoder(case['decoder'], code, em, p, salt=case.get('salt', 0) + 17 * i))
            for i, p in enumerate(rates_in)][:case.get('n_decoders', len(rates_in))]
    return code, em, r, rates_in, decs


def run_impl(case):
    """run the real class on `case`; returns (segments, final_state, tables) — everything as plain data
    with the implementation's floats"""
    from panqec.simulation import SplittingSimulation
    import panqec.simulation._splitting_simulation as SS
    code, em, r, rates_in, decs = build(case)
    script = Script([(int(i), int(k), float(parse_rat(u))) for i, k, u in case['draws']])
    ustub = UStub([parse_rat(u) for u in case.get('us', [])])
    with warnings.catch_warnings(), np.errstate(all='ignore'), contextlib.redirect_stdout(io.StringIO()):
        warnings.simplefilter('ignore')
        sim = SplittingSimulation(code, em, decs, [float(p) for p in rates_in], n_init_runs=case['n_init'],
                                  start_run=case.get('start_run', 0), verbose=False, rng=ForbiddenRng())
        real_next = sim.get_next_error
        real_eprob = em.error_probability
        real_meas, real_islog, real_incs = code.measure_syndrome, code.is_logical_error, code.in_codespace

        def spy_next(decoder, error_rate, previous_error):
            script.cur = {'prev_obj': previous_error, 'eprob': [], 'test': {}}
            script.phase = 0
            try:
                out = real_next(decoder, error_rate, previous_error)
            finally:
                cur, script.cur = script.cur, None
            cur['next'] = [int(x) for x in out[0]]
            cur['accepted'] = out[0] is not previous_error
            cur['lp_next'] = float(out[1])
            cur.pop('prev_obj')
            script.steps.append(cur)
            return out

        def spy_eprob(error, code_, error_rate, log_output=False):
            v = real_eprob(error, code_, error_rate, log_output=log_output)
            if script.cur is not None:
                script.cur['eprob'].append(([int(x) for x in error], float(v), bool(log_output)))
            return v

        def spy_meas(error):
            s = real_meas(error)
            if script.cur is not None and 'syndrome' not in script.cur['test']:
                script.cur['test']['syndrome'] = [int(x) for x in s]
                script.cur['test']['measured'] = [int(x) for x in error]
            return s

        def spy_islog(error):
            b = real_islog(error)
            if script.cur is not None:
                script.cur['test']['total'] = [int(x) for x in error]
                script.cur['test']['is_logical'] = bool(b)
            return b

        def spy_incs(error):
            b = real_incs(error)
            if script.cur is not None:
                script.cur['test']['in_codespace'] = bool(b)
            return b

        sim.get_next_error = spy_next
        segs = []
        patches = [mock.patch('numpy.random.choice', side_effect=script.choice),
                   mock.patch.object(em, 'error_probability', side_effect=spy_eprob),
                   mock.patch.object(code, 'measure_syndrome', side_effect=spy_meas),
                   mock.patch.object(code, 'is_logical_error', side_effect=spy_islog),
                   mock.patch.object(code, 'in_codespace', side_effect=spy_incs),
                   mock.patch('numpy.random.default_rng', side_effect=lambda *a, **kw: ustub)]
        for nm in ('randint', 'random', 'rand', 'uniform', 'random_sample', 'binomial', 'permutation', 'shuffle'):
            patches.append(mock.patch(f'numpy.random.{nm}', side_effect=forbidden(nm)))
        with contextlib.ExitStack() as st:
            for p_ in patches:
                st.enter_context(p_)
            for op in case['ops']:
                n0 = len(script.steps)
                try:
                    if op.startswith('r'):
                        sim._run(int(op[1:]))
                        segs.append(('steps', script.steps[n0:]))
                    elif op == 'p':
                        sim.postprocess()
                        segs.append(('tok', 'ok'))
                    elif op == 'c':
                        segs.append(('c', [x for x in sim.compute_optimal_c()]))
                    elif op == 'g':
                        segs.append(('g', sim.get_results()))
                    else:
                        segs.append(('tok', 'bad'))
                except (StubMismatch, DecoderFailure):
                    raise
                except Exception as e:  # noqa
                    segs.append(('tok', exc_token(e)))
        res = sim._results
        state = {'cur': [[int(x) for x in e] for e in sim.current_error],
                 'logp': [[float(x) for x in l] for l in res['log_p_errors']],
                 'nruns': int(res['n_runs']), 'pos': len(script.steps),
                 'pest': None if isinstance(res['logical_error_rates'], list) and len(res['logical_error_rates']) == 0
                 else [float(x) for x in res['logical_error_rates']]}
    tables = [d.calls for d in decs]
    return segs, state, tables, code


def op_line(case, code, tables):
    from harness.props.c07 import chan_tokens
    H = code.stabilizer_matrix.toarray().tolist()
    Lx, Lz = code.logicals_x.tolist(), code.logicals_z.tolist()
    words = deformation_words(code, case.get('deformation'), case.get('kwargs'))
    ct = chan_tokens(Fraction(0), [parse_rat(x) for x in case['r']], code.n, words).split(' ')
    tabs = '+'.join(';'.join(f'{vec(s)}~{vec(c)}' for s, c in t) if t else '-' for t in tables) if tables else '_'
    draws = ','.join(f'{i}:{k}:{u}' for i, k, u in case['draws']) if case['draws'] else '-'
    us = ','.join(case.get('us', [])) if case.get('us') else '-'
    return (f"sp.run wide {stack(H)} {stack(Lx)} {stack(Lz)} {ct[1]} {ct[2]} {ct[3]} {ct[4]} {ct[5]} "
            f"{','.join(case['rates'])} {tabs} {case['n_init']} {case.get('start_run', 0)} {draws} {us} "
            f"{','.join(case['ops'])}")


# ------------------------------------------------------------------ canonical text (two passes: floats against the model's rationals)

def log_tok(model_tok, x):
    """a float log-probability against the model's rational probability"""
    try:
        q = parse_rat(model_tok)
    except Exception:  # noqa
        return f'log:{x!r}'
    if q == 0:
        return model_tok if x == float('-inf') else f'log:{x!r}'
    if q < 0 or not math.isfinite(x):
        return f'log:{x!r}'
    ref = math.log(q.numerator) - math.log(q.denominator)
    return model_tok if abs(x - ref) <= 1e-9 * (1 + abs(ref)) else f'log:{x!r}'


def num_tok(model_tok, x, rel=1e-9):
    if model_tok == 'nan':
        return 'nan' if math.isnan(x) else repr(x)
    try:
        q = parse_rat(model_tok)
    except Exception:  # noqa
        return repr(x)
    if not math.isfinite(x):
        return repr(x)
    return model_tok if abs(x - float(q)) <= rel * max(abs(float(q)), 1e-300) or Fraction(x) == q else repr(x)


def rad_tok(model_tok, x):
    """p_se = sqrt(radicand) against the model's exact radicand; the square root of a negative radicand is nan,
    and a radicand that is exactly 0 may come out as -1e-17 in floating point"""
    try:
        q = parse_rat(model_tok)
    except Exception:  # noqa
        return 'nan' if math.isnan(x) else repr(x)
    if math.isnan(x):
        return model_tok if q < Fraction(1, 10 ** 9) else 'nan'
    return model_tok if abs(x * x - float(q)) <= 1e-8 * abs(float(q)) + 1e-12 else repr(x)


def grid_tok(c):
    """an entry of compute_optimal_c: a point of np.linspace(0.0001, 1, 100) or the int 1"""
    c = float(c)
    i = round((c * 10000 - 1) / 101)
    q = Fraction(1 + 101 * i, 10000)
    if 0 <= i <= 99 and abs(c - float(q)) <= 1e-12:
        return rs(q)
    return repr(c)


def parse_fields(step):
    out = {}
    for f in step.split(','):
        k, _, v = f.partition('=')
        out[k] = v
    return out


def render_step(st, m):
    """one get_next_error call as the model prints it; `m` = the model's fields of the same step (or {})"""
    ep = st['eprob']
    prev_lp = ep[0][1] if len(ep) > 0 else float('nan')
    new = ep[1][0] if len(ep) > 1 else None
    new_lp = ep[1][1] if len(ep) > 1 else float('nan')
    t = st['test']
    if st.get('coin') and 'syndrome' in t:
        cs = '-' if 'in_codespace' not in t else ('1' if t['in_codespace'] else '0')
        test = f"{vec(t['syndrome'])}~{vec(t.get('total', []))}~{'1' if t.get('is_logical') else '0'}~{cs}"
        if t.get('measured') != new:
            test = 'measured-another-error:' + test
    else:
        test = '-'
    return (f"i={st.get('idx')},L={st.get('letters') or '-'},s={st.get('letter')},new={vec(new) if new is not None else '?'},"
            f"pp={log_tok(m.get('pp', ''), prev_lp)},pn={log_tok(m.get('pn', ''), new_lp)},"
            f"q={num_tok(m.get('q', ''), st.get('q', float('nan')))},b={st.get('coin')},t={test},"
            f"acc={'1' if st['accepted'] else '0'},next={vec(st['next'])},pnext={log_tok(m.get('pnext', ''), st['lp_next'])}")


def render(model_line, segs, state):
    msegs = model_line.split(' ')
    out = []
    for k, (kind, val) in enumerate(segs):
        mseg = msegs[k] if k < len(msegs) else ''
        if kind == 'tok':
            out.append(val)
        elif kind == 'steps':
            msteps = [] if mseg in ('-', '') or mseg.startswith('ERR') else mseg.split(';')
            if not val:
                out.append('-')
            else:
                out.append(';'.join(render_step(st, parse_fields(msteps[j]) if j < len(msteps) else {})
                                    for j, st in enumerate(val)))
        elif kind == 'c':
            out.append('c=' + (','.join(grid_tok(c) for c in val) if val else '-'))
        elif kind == 'g':
            mf = dict(f.partition('=')[::2] for f in mseg.split('|')) if '|' in mseg else {}
            mp = mf.get('pest', '').split(',')
            mr = mf.get('rad', '').split(',')
            pest = [float(x) for x in np.atleast_1d(val['p_est'])]
            pse = [float(x) for x in np.atleast_1d(val['p_se'])]
            rates = ','.join(rs(x) for x in val['error_rates']) or '-'
            out.append(f"rates={rates}|nruns={int(val['n_runs'])}|"
                       f"pest={','.join(num_tok(mp[j] if j < len(mp) else '', x) for j, x in enumerate(pest)) or '-'}|"
                       f"rad={','.join(rad_tok(mr[j] if j < len(mr) else '', x) for j, x in enumerate(pse)) or '-'}")
    # final state
    ms = {}
    for f in msegs[len(segs):]:
        k_, _, v_ = f.partition('=')
        ms[k_] = v_
    mlog = [c.split(',') if c != '-' else [] for c in ms.get('logp', '').split('+')] if ms.get('logp', '_') != '_' else []
    chains = []
    for i, l in enumerate(state['logp']):
        ml = mlog[i] if i < len(mlog) else []
        chains.append(','.join(log_tok(ml[j] if j < len(ml) else '', x) for j, x in enumerate(l)) or '-')
    if state['pest'] is None:
        pe = '[]'
    else:
        mp = ms.get('pest', '').split(',')
        pe = ','.join(num_tok(mp[j] if j < len(mp) else '', x) for j, x in enumerate(state['pest'])) or '-'
    out.append(f"cur={stack(state['cur'])} logp={'+'.join(chains) if chains else '_'} nruns={state['nruns']} "
               f"pos={state['pos']} pest={pe}")
    return ' '.join(out)


# ------------------------------------------------------------------ case generation

CHAIN_CODES = [('Planar2DCode', (1, 1)), ('Planar2DCode', (2, 1)), ('Toric2DCode', (1, 1)), ('Toric2DCode', (2, 1)),
               ('Planar2DCode', (2, 2)), ('RotatedPlanar2DCode', (2, 2)), ('Toric2DCode', (2, 2)), ('Cyc3', (2, 1)),
               ('Toric3DCode', (1, 1, 1))]

DIRECTIONS = [(Fraction(1, 4), Fraction(1, 4), Fraction(1, 2)), (Fraction(1, 2), Fraction(1, 8), Fraction(3, 8)),
              (Fraction(1), Fraction(0), Fraction(0)), (Fraction(0), Fraction(0), Fraction(1)),
              (Fraction(1, 2), Fraction(0), Fraction(1, 2)), (Fraction(0), Fraction(1), Fraction(0)),
              (Fraction(1, 8), Fraction(3, 4), Fraction(1, 8))]

RATE_SETS = [['1/4', '1/8'], ['1/8', '1/4', '1/2'], ['1/16'], ['3/8', '1/32', '1/4'], ['1/2', '1/2'],
             ['1/4', '1/8', '1/16', '1/32']]


def random_case(rng, thorough=False, edge=None):
    from harness.props.c07 import deformation_options
    name, size = CHAIN_CODES[int(rng.integers(len(CHAIN_CODES)))]
    opts = deformation_options(name)
    dname, dkw = opts[int(rng.integers(len(opts)))]
    r = DIRECTIONS[int(rng.integers(len(DIRECTIONS)))]
    rates = list(RATE_SETS[int(rng.integers(len(RATE_SETS)))])
    kind = ['zero', 'hash', 'coset', 'matching'][int(rng.integers(4))]
    code = make_code(name, size)
    if kind == 'matching' and name not in ('Toric2DCode', 'Planar2DCode', 'RotatedPlanar2DCode'):
        kind = 'coset'
    if kind == 'coset' and code.n > 5:
        kind = 'hash'
    n = code.n
    ops = [['r2', 'r1', 'p', 'g'], ['r0', 'r3', 'c'], ['g', 'r4', 'p', 'c', 'g'], ['r1', 'r1', 'r1', 'p', 'g'],
           ['r6', 'p', 'g', 'r1', 'g']][int(rng.integers(5))]
    case = {'code': name, 'size': list(size), 'deformation': dname, 'kwargs': dkw, 'r': [rs(x) for x in r],
            'rates': rates, 'decoder': kind, 'salt': int(rng.integers(0, 200)), 'n_init': int(rng.integers(1, 5)),
            'start_run': int(rng.integers(0, 3)), 'ops': ops}
    if edge == 'rate-out':
        case['rates'] = rates + [['-1/8'], ['9/8'], ['1/1'], ['0/1']][int(rng.integers(4))]
        case['ops'] = ['r2', 'g', 'r1']
    if edge == 'n-init-0':
        case['n_init'] = 0
    if edge == 'few-decoders':
        case['n_decoders'] = max(1, len(rates) - 1)
        case['ops'] = ['r1', 'r2', 'g']
    total = sum(int(o[1:]) for o in case['ops'] if o.startswith('r')) * len(case['rates'])
    # position of the drawn letter: below the number of candidate letters the STATED channel gives that qubit
    words = deformation_words(code, dname, dkw)
    srt = sorted((parse_rat(x) for x in case['rates']), reverse=True)
    case['draws'] = []
    for k in range(total):
        idx = int(rng.integers(n))
        d = stated_dist(srt[k % len(srt)], r, None if words is None else words[idx])
        m = sum(1 for c in 'XYZ' if d[c] != 0)
        # coin variates: dyadic with 30 bits, a third of them close to 1 (so that small q's are accepted too)
        u = (Fraction(int(rng.integers(0, 2 ** 30)), 2 ** 30) if rng.random() < 0.7 else
             Fraction(int(rng.integers(2 ** 30 - 2 ** 20, 2 ** 30)), 2 ** 30))
        case['draws'].append([idx, int(rng.integers(m)) if m else 0, rs(u)])
    case['us'] = [rs(Fraction(int(rng.integers(0, 2 ** 20)), 2 ** 20)) for _ in range(case['n_init'] * n)]
    return case


def boundary_free(model_line, case):
    """False when some scripted coin variate is within 1e-9 of 1-q (the float q decides then)"""
    k = 0
    for seg in model_line.split(' '):
        if not seg.startswith('i='):
            continue
        for step in seg.split(';'):
            f = parse_fields(step)
            try:
                q = parse_rat(f['q'])
            except Exception:  # noqa
                return True
            u = parse_rat(case['draws'][k][2])
            if abs(float(u) - float(1 - q)) < 1e-9 and q not in (0, 1):
                return False
            k += 1
    return True


# ------------------------------------------------------------------ estimator on exact inputs

def impl_estimator(start_run, p0, chains):
    """the real compute_optimal_c / compute_logical_probabilities on given recorded probabilities"""
    from panqec.simulation import SplittingSimulation
    import panqec.simulation._splitting_simulation as SS
    import types
    logs = [[math.log(q.numerator) - math.log(q.denominator) for q in ch] for ch in chains]
    sim = types.SimpleNamespace(error_rates=np.zeros(len(chains)), _results={'log_p_errors': logs},
                                start_run=start_run, verbose=False, code=None, error_model=None, decoders=[None],
                                n_init_runs=1, initial_logical_p=None)
    sim.compute_optimal_c = lambda: SplittingSimulation.compute_optimal_c(sim)
    with mock.patch.object(SS, 'calculate_logical_error_rate', side_effect=lambda *a, **kw: float(p0)), \
            contextlib.redirect_stdout(io.StringIO()), np.errstate(all='ignore'), warnings.catch_warnings():
        warnings.simplefilter('ignore')
        cs = SplittingSimulation.compute_optimal_c(sim)
        lp = SplittingSimulation.compute_logical_probabilities(sim)
    return cs, [float(x) for x in lp]


def est_canon(model_line, obj):
    cs, lp = obj
    parts = dict(f.partition('=')[::2] for f in model_line.split(' ')) if model_line.startswith('c=') else {}
    ml = parts.get('lp', '').split(',')
    return (f"c={','.join(grid_tok(c) for c in cs) or '-'} "
            f"lp={','.join(num_tok(ml[j] if j < len(ml) else '', x) for j, x in enumerate(lp)) or '-'}")


def random_estimator_input(rng):
    n_p = int(rng.integers(1, 5))
    N = int(rng.integers(0, 9)) if rng.random() < 0.3 else int(rng.integers(5, 40))
    start = int(rng.integers(0, 4))
    chains = []
    scale = Fraction(1)
    for j in range(n_p):
        # recorded probabilities: products of a few dyadic single-qubit factors, smaller at lower rates or not
        scale *= Fraction(int(rng.integers(1, 12)), 8)
        chains.append([scale * Fraction(int(rng.integers(1, 64)), 2 ** int(rng.integers(4, 12))) for _ in range(N)])
    p0 = Fraction(int(rng.integers(0, 9)), 8)
    return start, p0, chains


def chains_tok(chains):
    return '+'.join(','.join(rs(q) for q in ch) if ch else '-' for ch in chains) if chains else '_'


# ------------------------------------------------------------------ correspondence streams

def step_tags(model_line):
    """histogram of what the steps of one run exercised (read off the model's trace)"""
    tags = {}
    for seg in model_line.split(' '):
        if seg.startswith('ERR:'):
            tags[seg] = tags.get(seg, 0) + 1
        if not seg.startswith('i='):
            continue
        for step in seg.split(';'):
            f = parse_fields(step)
            if f.get('b') == '0':
                k = 'step:coin-0'
            elif f.get('acc') == '1':
                k = 'step:moved:not-in-codespace' if f.get('t', '').endswith('~0') else 'step:moved:logical'
            else:
                k = 'step:coin-1-but-decodes'
            tags[k] = tags.get(k, 0) + 1
            if f.get('pp') == '0/1':
                tags['step:previous-probability-0'] = tags.get('step:previous-probability-0', 0) + 1
    return tags


def chain_stream(ctx, rng):
    from harness import core
    from harness.core import Stream
    s = Stream('splitting-chain')
    n_cases = 260 if ctx.thorough else 90
    cases, impl, ops = [], [], []
    for k in range(n_cases):
        edge = [None, None, None, None, 'rate-out', None, None, 'n-init-0', None, 'few-decoders'][k % 10]
        case = random_case(rng, ctx.thorough, edge=edge)
        try:
            segs, state, tables, code = run_impl(case)
        except DecoderFailure:
            continue
        except StubMismatch as e:
            # another sampling mechanism: the scripted draws say nothing -> correspondence is broken
            cases.append(case)
            impl.append(f'EXC:StubMismatch:{e}')
            ops.append(op_line(case, make_code(case['code'], tuple(case['size'])), []))
            continue
        cases.append(case)
        impl.append((segs, state))
        ops.append(op_line(case, code, tables))
    outs = core.driver(ops)
    for case, im, op, m in zip(cases, impl, ops, outs):
        if isinstance(im, str):
            s.add(op, im, case, tag='stub-mismatch')
            continue
        if not boundary_free(m, case):
            continue
        ans = render(m, im[0], im[1])
        s.add(op, ans, case, tag=f"decoder:{case['decoder']}")
        for t, c in step_tags(m).items():
            s.hist[t] = s.hist.get(t, 0) + c
    return s.run()


def estimator_stream(ctx, rng):
    from harness import core
    from harness.core import Stream
    s = Stream('splitting-estimator')
    inputs = [random_estimator_input(rng) for _ in range(400 if ctx.thorough else 80)]
    ops = [f'sp.est {st} {rs(p0)} {chains_tok(ch)}' for st, p0, ch in inputs]
    outs = core.driver(ops + [f'sp.margin {st} {chains_tok(ch)}' for st, p0, ch in inputs])
    models, margins = outs[:len(ops)], outs[len(ops):]
    for (st, p0, ch), op, m, mg in zip(inputs, ops, models, margins):
        if mg not in ('none', 'bad-args') and parse_rat(mg) < Fraction(1, 10 ** 7):
            continue        # the float sign of lhs - rhs is not reliable at some grid point
        try:
            ans = est_canon(m, impl_estimator(st, p0, ch))
        except Exception as e:  # noqa
            ans = exc_token(e)
        if m.startswith('ERR'):
            tag = m
        else:
            cs = m.split(' ')[0][2:].split(',')
            tag = 'no-pair' if cs == ['-'] else ('some-sign-change' if any(c != '1/1' for c in cs) else 'fallback-c=1')
        s.add(op, ans, {'start_run': st, 'p0': rs(p0), 'recorded': [[rs(q) for q in c] for c in ch]}, tag=tag)
    return s.run()


# ------------------------------------------------------------------ oracle (implementation only, mechanism-free)

TAIL = 1e-10   # level of the exact binomial confidence intervals of the transition frequencies


def letter_of(x, z):
    return {(0, 0): 'I', (1, 0): 'X', (1, 1): 'Y', (0, 1): 'Z'}[(int(bool(x)), int(bool(z)))]


def stated_prob(dists, e):
    n = len(dists)
    q = Fraction(1)
    for i in range(n):
        q *= dists[i][letter_of(e[i], e[n + i])]
    return q


def ref_fails(code, total):
    """reference for `the residual is a logical error or has a syndrome`: symplectic products in plain integers"""
    n = code.n
    t = np.array(total, dtype=np.int64) % 2
    sw = np.concatenate([t[n:], t[:n]])
    H = np.asarray(code.stabilizer_matrix.toarray(), dtype=np.int64).reshape(-1, 2 * n)
    L = np.vstack([np.asarray(code.logicals_x, dtype=np.int64), np.asarray(code.logicals_z, dtype=np.int64)])
    return bool(((H @ sw) % 2).any() or ((L @ sw) % 2).any())


def decode_fails(code, dec, e):
    e = np.array(e, dtype=np.uint8)
    H = np.asarray(code.stabilizer_matrix.toarray(), dtype=np.int64).reshape(-1, 2 * code.n)
    sw = np.concatenate([e[code.n:], e[:code.n]]).astype(np.int64)
    syn = ((H @ sw) % 2).astype(np.uint8)
    corr = np.asarray(dec.decode(syn)).astype(np.int64)
    return ref_fails(code, (corr + e) % 2)


def neighbours(dists, prev):
    """[(index, letter, error)] of the single-qubit moves the stated channel allows from `prev`"""
    n = len(dists)
    out = []
    for i in range(n):
        for c in 'XYZ':
            if dists[i][c] == 0:
                continue
            t = list(prev)
            if c in 'XY':
                t[i] ^= 1
            if c in 'ZY':
                t[n + i] ^= 1
            out.append((i, c, t))
    return out


def oracle_objects(case):
    code = make_code(case['code'], tuple(case['size']))
    r = [parse_rat(x) for x in case['r']]
    em = make_model(r, case.get('deformation'), case.get('kwargs'))
    words = deformation_words(code, case.get('deformation'), case.get('kwargs'))
    return code, em, r, words


def quiet():
    st = contextlib.ExitStack()
    st.enter_context(warnings.catch_warnings())
    warnings.simplefilter('ignore')
    st.enter_context(np.errstate(all='ignore'))
    st.enter_context(contextlib.redirect_stdout(io.StringIO()))
    return st


def cp_interval(k, N, alpha):
    """exact (Clopper-Pearson) two-sided confidence interval for a binomial proportion"""
    from scipy.stats import beta
    lo = 0.0 if k == 0 else float(beta.ppf(alpha / 2, k, N - k + 1))
    hi = 1.0 if k == N else float(beta.ppf(1 - alpha / 2, k + 1, N - k))
    return lo, hi


def check_kernel(case):
    """`split-kernel`: N independent calls of the real get_next_error from one failing error s (real numpy
    generators, whatever the class samples with).  Hard checks on every outcome: it is s or a single-qubit
    neighbour of non-zero probability that fails to decode, returned with the log of its stated probability.
    Statistical check, independent of how the qubit and the letter are proposed (any fixed proposal g):
    for a neighbour t the frequency of s -> t estimates g*min(1, P(t)/P(s)) and, from N calls started at t, the
    frequency of t -> s estimates g*min(1, P(s)/P(t)); the two exact (Clopper-Pearson, level 1e-10) confidence
    intervals for g must intersect.  A wrong or inverted likelihood ratio separates them."""
    from panqec.simulation import SplittingSimulation
    code, em, r, words = oracle_objects(case)
    n = code.n
    p = parse_rat(case['p'])
    dists = [stated_dist(p, r, None if words is None else words[i]) for i in range(n)]
    dec = make_decoder(case['decoder'], code, em, p, salt=case.get('salt', 0))
    prev = [int(c) for c in case['previous']]
    pp = stated_prob(dists, prev)
    if pp == 0 or any(all(dists[i][c] == 0 for c in 'XYZ') for i in range(n)):
        return None
    N = case['N']

    def sample(start, seed):
        np.random.seed(seed)
        sim = SplittingSimulation(code, em, [dec], [float(p)], n_init_runs=1, verbose=False,
                                  rng=np.random.default_rng(seed))
        arr = np.array(start, dtype=np.uint8)
        counts, lps = {}, {}
        for _ in range(N):
            nxt, lp = sim.get_next_error(dec, float(p), arr)
            key = tuple(int(x) for x in nxt)
            counts[key] = counts.get(key, 0) + 1
            lps[key] = float(lp)
        return counts, lps

    def hard(start, counts, lps):
        allowed = {tuple(t) for _, _, t in neighbours(dists, start)}
        for key in counts:
            want = stated_prob(dists, list(key))
            ref = math.log(want.numerator) - math.log(want.denominator) if want > 0 else float('-inf')
            if not (lps[key] == ref or abs(lps[key] - ref) <= 1e-9 * (1 + abs(ref))):
                return (f'returned log-probability {lps[key]!r} with the error {vec(key)}, whose stated probability has '
                        f'logarithm {ref!r}')
            if key == tuple(start):
                continue
            if key not in allowed:
                return (f'moved from {vec(start)} to {vec(key)}: not the previous error times one single-qubit Pauli '
                        f'of non-zero probability')
            if want == 0 or not decode_fails(code, dec, list(key)):
                return f'moved from {vec(start)} to {vec(key)}, an error of probability 0 or one that this decoder corrects'
        return None

    with quiet():
        c1, l1 = sample(prev, case['seed'])
        msg = hard(prev, c1, l1)
        if msg:
            return msg
        if not decode_fails(code, dec, prev):
            return None
        cand = []
        for i, c, t in neighbours(dists, prev):
            pt = stated_prob(dists, t)
            if pt > 0 and decode_fails(code, dec, t):
                cand.append((abs(math.log(pt / pp)), t, pt))
        cand.sort(key=lambda x: -x[0])
        for j, (_, t, pt) in enumerate(cand[:case.get('pairs', 2)]):
            c2, l2 = sample(t, case['seed'] + 1 + j)
            msg = hard(t, c2, l2)
            if msg:
                return msg
            q1, q2 = float(min(Fraction(1), pt / pp)), float(min(Fraction(1), pp / pt))
            k1, k2 = c1.get(tuple(t), 0), c2.get(tuple(prev), 0)
            lo1, hi1 = cp_interval(k1, N, TAIL)
            lo2, hi2 = cp_interval(k2, N, TAIL)
            if lo1 / q1 > hi2 / q2 or lo2 / q2 > hi1 / q1:
                return (f'{vec(prev)} -> {vec(t)} happened {k1} times in {N} calls and the reverse {k2} times in {N}; '
                        f'the stated probabilities give acceptance min(1, P(t)/P(s)) = {q1:.4f} and {q2:.4f} for the '
                        f'reverse: no proposal probability is compatible with both (exact 1e-10 confidence intervals '
                        f'[{lo1 / q1:.4f}, {hi1 / q1:.4f}] and [{lo2 / q2:.4f}, {hi2 / q2:.4f}])')
    return None


def check_run(case):
    """`split-run`: a real seeded run through the public methods; every step observed at the boundary of
    get_next_error must be a stay or a single-qubit move into the failure set of that chain's decoder, every
    recorded value the log of the stated probability (at that chain's rate) of the error the chain is in, and
    the counters / lists of the results consistent."""
    from panqec.simulation import SplittingSimulation
    code, em, r, words = oracle_objects(case)
    n = code.n
    rates_in = [parse_rat(x) for x in case['rates']]
    srt = sorted(rates_in, reverse=True)
    dists = [[stated_dist(p, r, None if words is None else words[i]) for i in range(n)] for p in srt]
    decs = [make_decoder(case['decoder'], code, em, p, salt=case.get('salt', 0)) for p in rates_in]
    obs = []
    with quiet():
        np.random.seed(case['seed'])
        sim = SplittingSimulation(code, em, decs, [float(p) for p in rates_in], n_init_runs=case['n_init'],
                                  verbose=False, rng=np.random.default_rng(case['seed']))
        real = sim.get_next_error

        def spy(decoder, error_rate, previous_error):
            out = real(decoder, error_rate, previous_error)
            obs.append((decoder, float(error_rate), [int(x) for x in previous_error], [int(x) for x in out[0]], float(out[1])))
            return out
        sim.get_next_error = spy
        total = 0
        try:
            for k in case['runs']:
                sim.run(k)
                total += k
        except NotImplementedError:
            return None            # no logical of non-zero probability: the class declines (documented)
        except ValueError as e:
            if 'does not fail' in str(e):
                return None
            raise
        res = sim._results
        R = len(srt)
        if int(res['n_runs']) != total:
            return f"n_runs = {res['n_runs']} after run() calls adding up to {total}"
        if len(res['log_p_errors']) != R or any(len(l) != total for l in res['log_p_errors']):
            return f"log_p_errors has lengths {[len(l) for l in res['log_p_errors']]}, expected {R} lists of {total}"
        if len(obs) != total * R:
            return f'{len(obs)} chain steps for {total} sweeps over {R} error rates'
        for k, (decoder, rate, prev, nxt, lp) in enumerate(obs):
            i = k % R
            if abs(rate - float(srt[i])) > 1e-15 or decoder is not decs[i]:
                return f'step {k}: chain {i} stepped at rate {rate!r} / with another decoder than decoders[{i}]'
            want = stated_prob(dists[i], nxt)
            ref = math.log(want.numerator) - math.log(want.denominator) if want > 0 else float('-inf')
            if not (lp == ref or abs(lp - ref) <= 1e-9 * (1 + abs(ref))):
                return f'step {k}: returned log-probability {lp!r}, the error {vec(nxt)} has stated log-probability {ref!r}'
            if float(res['log_p_errors'][i][k // R]) != lp:
                return f'step {k}: recorded {res["log_p_errors"][i][k // R]!r}, returned {lp!r}'
            if nxt != prev:
                if not any(t == nxt for _, _, t in neighbours(dists[i], prev)):
                    return f'step {k}: moved from {vec(prev)} to {vec(nxt)}: not one single-qubit Pauli of non-zero probability'
                if not decode_fails(code, decs[i], nxt):
                    return f'step {k}: chain {i} moved to {vec(nxt)}, which its decoder corrects'
        for i in range(R):
            last = [o for j, o in enumerate(obs) if j % R == i]
            if last and [int(x) for x in sim.current_error[i]] != last[-1][3]:
                return f'current_error[{i}] is not the error returned by the last step of chain {i}'
        sim.postprocess()
        out = sim.get_results()
    pe = np.atleast_1d(out['p_est'])
    if len(pe) != R or len(np.atleast_1d(out['p_se'])) != R or int(out['n_runs']) != total:
        return f"get_results: {len(pe)} estimates for {R} error rates, n_runs {out['n_runs']} for {total} sweeps"
    k0 = float(pe[0]) * case['n_init']
    if not (0 <= float(pe[0]) <= 1 and abs(k0 - round(k0)) < 1e-9):
        return f"p_est[0] = {float(pe[0])!r} is not a failure frequency of {case['n_init']} direct trials"
    return None


def check_estimator(case):
    """`split-estimator`: a one-qubit code (no stabilizer; every non-identity Pauli is a failure) under a channel
    with r_x, r_y, r_z all different.  Every failing error e has the SAME likelihood ratio P_{p'}(e)/P_p(e) =
    p'/p between two rates, which is also the ratio of the failure probabilities.  The acceptance-ratio
    estimator of the splitting method (Bravyi-Vargo, the reference the class cites) is then exact for any
    sample and any constant C: p_est[j+1]/p_est[j] must equal p_{j+1}/p_j up to rounding, whatever the seed."""
    from panqec.simulation import SplittingSimulation
    code, em, r, words = oracle_objects(case)
    rates_in = [parse_rat(x) for x in case['rates']]
    srt = sorted(rates_in, reverse=True)
    decs = [make_decoder(case['decoder'], code, em, p) for p in rates_in]
    with quiet():
        np.random.seed(case['seed'])
        sim = SplittingSimulation(code, em, decs, [float(p) for p in rates_in], n_init_runs=case['n_init'],
                                  verbose=False, rng=np.random.default_rng(case['seed']))
        sim.run(case['N'])
        sim.postprocess()
        pe = [float(x) for x in np.atleast_1d(sim.get_results()['p_est'])]
    if pe[0] == 0:
        return None
    for j in range(len(srt) - 1):
        want = float(srt[j + 1] / srt[j])
        got = pe[j + 1] / pe[j] if pe[j] != 0 else float('nan')
        if not abs(got - want) <= 1e-6 * want:
            return (f'p_est = {pe}: p_est[{j + 1}]/p_est[{j}] = {got!r}, but every failing error has likelihood ratio '
                    f'{want!r} between the rates {float(srt[j])} and {float(srt[j + 1])} (so has the failure probability): '
                    f'the factors are not likelihood ratios')
    return None


CHECKS = {'split-kernel': check_kernel, 'split-run': check_run, 'split-estimator': check_estimator}


def oracle_cases(ctx, deep):
    rng = ctx.np_rng(1881)
    cases = []
    kernel_codes = [('Planar2DCode', (2, 2), 'matching'), ('Toric2DCode', (2, 1), 'coset'), ('Planar2DCode', (2, 1), 'hash'),
                    ('Cyc3', (2, 1), 'coset'), ('RotatedPlanar2DCode', (2, 2), 'matching'), ('Toric3DCode', (1, 1, 1), 'zero')]
    from harness.props.c07 import deformation_options
    for name, size, kind in kernel_codes[:None if deep else 3]:
        code = make_code(name, size)
        n = code.n
        opts = deformation_options(name)
        for rep in range(3 if deep else 1):
            dname, dkw = opts[int(rng.integers(len(opts)))]
            r = [Fraction(1, 4), Fraction(1, 4), Fraction(1, 2)] if rep % 2 == 0 else [Fraction(5, 8), Fraction(1, 8), Fraction(1, 4)]
            p = [Fraction(1, 4), Fraction(1, 8), Fraction(3, 8)][int(rng.integers(3))]
            words = deformation_words(code, dname, dkw)
            dists = [stated_dist(p, r, None if words is None else words[i]) for i in range(n)]
            dec = make_decoder(kind, code, make_model(r, dname, dkw), p, salt=0)
            for _ in range(20):
                letters = [[c for c in LETTERS if dists[i][c] != 0][int(rng.integers(4))] for i in range(n)]
                prev = [1 if c in 'XY' else 0 for c in letters] + [1 if c in 'ZY' else 0 for c in letters]
                if decode_fails(code, dec, prev):
                    break
            cases.append({'kind': 'split-kernel', 'code': name, 'size': list(size), 'deformation': dname, 'kwargs': dkw,
                          'r': [rs(x) for x in r], 'p': rs(p), 'decoder': kind, 'salt': 0,
                          'previous': vec(prev), 'N': 4000 if deep else 1500, 'pairs': 3 if deep else 2, 'seed': int(rng.integers(2 ** 31))})
    for k in range(12 if deep else 5):
        name, size = CHAIN_CODES[int(rng.integers(len(CHAIN_CODES)))]
        code = make_code(name, size)
        kind = ['zero', 'hash', 'coset', 'matching'][int(rng.integers(4))]
        if kind == 'matching' and name not in ('Toric2DCode', 'Planar2DCode', 'RotatedPlanar2DCode'):
            kind = 'zero'
        if kind == 'coset' and code.n > 5:
            kind = 'hash'
        opts = deformation_options(name)
        dname, dkw = opts[int(rng.integers(len(opts)))]
        r = DIRECTIONS[int(rng.integers(2))]
        cases.append({'kind': 'split-run', 'code': name, 'size': list(size), 'deformation': dname, 'kwargs': dkw,
                      'r': [rs(x) for x in r], 'rates': list(RATE_SETS[int(rng.integers(len(RATE_SETS)))]),
                      'decoder': kind, 'salt': int(rng.integers(100)), 'n_init': int(rng.integers(1, 6)),
                      'runs': [int(x) for x in rng.integers(0, 6, int(rng.integers(1, 4)))] + [2],
                      'seed': int(rng.integers(2 ** 31))})
    # NOT part of the oracle: C18 states that the Metropolis STEP uses true likelihood ratios (checked above); what
    # the estimator does with the recorded values is outside the statement.  check_estimator documents an
    # observation (DESIGN section 11: the class's estimator divides probabilities of two DIFFERENT errors) and can
    # be run by hand; it never produces a failure of C18.
    for k in range(0):
        cases.append({'kind': 'split-estimator', 'code': 'Planar2DCode', 'size': [1, 1], 'deformation': None, 'kwargs': {},
                      'r': ['1/2', '1/4', '1/4'], 'rates': ['1/2', '1/4', '1/8'], 'decoder': 'zero', 'n_init': 64,
                      'N': 200, 'seed': 7 + k})
    return cases


def check_case(case):
    try:
        return CHECKS[case['kind']](case)
    except DecoderFailure:
        return None
    except Exception as e:  # noqa
        return f'raised {type(e).__name__}: {e}'
