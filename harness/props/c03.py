"""C03 - Pauli representations are lossless and the symplectic product is exact."""
from __future__ import annotations

import itertools

import numpy as np
from scipy.sparse import csr_matrix

from harness.core import Stream
from harness.util import vec, stack, guarded, first_failures

ID = 'C03'
LEVEL = 'proof'
PROPERTY_MODULES = ['PanqecVerif.Properties.C03', 'PanqecVerif.Properties.C03Rank',
                    'PanqecVerif.Properties.C03BSparse', 'PanqecVerif.Properties.C03Utils']
LEVEL_TEXT = ('Lean theorems for every vector length, every vector and every dtype path of bs_prod '
              '(uint8 wrap at any overlap, wide integers, csr): result = GF(2) symplectic form; symmetric, '
              'alternating, bilinear; syndrome linear; string/BSF/integer/weight converters mutually inverse. '
              'Unbounded quantifiers are proved, the model is tied to bpauli.py by differential runs. '
              'The sparse helpers of bsparse.py (all 14 functions, csr modelled as stored entries in storage order) and the pure '
              'integer/list helpers of utils.py have their own model, streams and theorems (insert_mod2 toggles exactly one bit, '
              'dot = GF(2) inner product on binary rows, equal iff equal dense value, hsplit(hstack) round trip, stack/convert semantics).')
LEVEL_NOTE = ('trusted: Lean kernel + standard axioms; correspondence harness; numpy/scipy integer dot semantics '
              '(wrap modulo 256 for 8-bit dtypes) as modelled in Model/Bits.lean; gf2_rank/brank are proved to compute the GF(2) rank (Properties/C03Rank.lean, via Mathlib finrank)')
TECHNIQUE = 'Lean 4 proof (induction over lists, omega) + differential correspondence with the compiled model driver'
TRUSTED = ['numpy uint8/int8 dot products wrap modulo 256; wider integer dtypes are exact for the '
           'sizes used; scipy csr dot on uint8 wraps modulo 256 (modelled in Model/Bits.lean)']
ASSUMPTIONS = ['entries of BSF vectors are small non-negative integers (0/1 in all library paths)']
ANCHOR_FILES = ['panqec/bpauli.py', 'panqec/bsparse.py']

REPRS = ['list', 'uint8', 'int8', 'int64', 'uint64', 'csr', 'csr0']


def conv(rows, dim, rep):
    """rows: list of list of ints; dim 1 -> single vector"""
    data = rows[0] if dim == 1 else rows
    if rep == 'list':
        return [list(r) for r in rows] if dim == 2 else list(rows[0])
    if rep == 'csr':
        return csr_matrix(np.array(rows, dtype='uint8'))  # csr is always 2-D
    if rep == 'csr0':
        # the same matrix as a csr that STORES some of its zeros explicitly and keeps its column
        # indices unsorted (what sums / products of sparse Paulis followed by `.data %= 2` produce)
        a = np.array(rows, dtype='uint8')
        indptr, indices, data = [0], [], []
        for r in a:
            cols = list(range(len(r)))[::-1]
            keep = [c for c in cols if r[c] or c % 3 == 0]
            indices += keep
            data += [int(r[c]) for c in keep]
            indptr.append(len(indices))
        return csr_matrix((np.array(data, dtype='uint8'), np.array(indices, dtype=int), np.array(indptr)),
                          shape=a.shape)
    return np.array(data, dtype=rep)


def model_dtype(ra, rb):
    wide = {'int64', 'uint64'}
    return 'wide' if (ra in wide or rb in wide) else 'u8'


def canon_arr(x):
    x = np.asarray(x)
    shape = ','.join(map(str, x.shape)) if x.ndim else ''
    flat = [int(v) for v in x.reshape(-1)]
    return f"{vec(list(x.shape))} {vec(flat)}"


def bsprod_case(s: Stream, A, B, da, db, ra, rb, tag):
    from panqec.bpauli import bs_prod
    a = conv(A, da, ra)
    b = conv(B, db, rb)
    sparse = (ra in ('csr', 'csr0') or rb in ('csr', 'csr0'))
    eda = 2 if ra in ('csr', 'csr0') else da
    edb = 2 if rb in ('csr', 'csr0') else db
    ans = guarded(lambda: canon_arr(bs_prod(a, b)),
                  {'ValueError': lambda e: 'ERR odd' if 'even length' in str(e) else 'ERR mismatch'})
    op = f"bsprod {model_dtype(ra, rb)} {int(sparse)} {eda} {edb} {stack(A)} {stack(B)}"
    s.add(op, ans, {'A': A, 'B': B, 'adim': da, 'bdim': db, 'arep': ra, 'brep': rb},
          nontrivial=any(any(r) for r in A) and any(any(r) for r in B), tag=tag)


def all_bsf(n):
    return [list(v) for v in itertools.product([0, 1], repeat=2 * n)]


def correspondence(ctx):
    from panqec import bpauli
    rng = ctx.np_rng(3)
    streams = []

    # --- exhaustive pairs on n<=2 (quick) / n<=3 (thorough) in every representation pair
    s = Stream('bs_prod-exhaustive-small')
    nmax = 3 if ctx.thorough else 2
    for n in range(1, nmax + 1):
        vs = all_bsf(n)
        pairs = list(itertools.product(vs, vs))
        if n == 3:
            pairs = [pairs[i] for i in rng.choice(len(pairs), 600, replace=False)]
        rep_pairs = list(itertools.product(REPRS, REPRS))
        for (a, b) in pairs:
            if n == 1 or ctx.thorough:
                rps = rep_pairs
            else:
                rps = [rep_pairs[i] for i in rng.choice(len(rep_pairs), 6, replace=False)]
            for ra, rb in rps:
                for da, db in ((1, 1), (2, 1), (1, 2), (2, 2)):
                    if (da, db) != (1, 1) and rng.random() < 0.5 and not ctx.thorough:
                        continue
                    bsprod_case(s, [a], [b], da, db, ra, rb, f'n={n}')
    streams.append(s.run())

    # --- stacks with planted overlaps (uint8 wrap) and extreme densities
    s = Stream('bs_prod-stacks-overlap')
    sizes = [128, 130, 300, 600] if ctx.thorough else [130, 300]
    for n in sizes:
        for overlap in (2, 255, 256, 257, 511, 512):
            if overlap > n:
                continue
            a = [0] * (2 * n)
            b = [0] * (2 * n)
            pos = rng.choice(n, overlap, replace=False)
            for p in pos:
                a[p] = 1
                b[n + p] = 1
            extra = [list(rng.integers(0, 2, 2 * n)) for _ in range(2)]
            A = [a] + [[int(x) for x in r] for r in extra]
            B = [b, [1] * (2 * n), [0] * (2 * n)]
            for ra, rb in itertools.product(['uint8', 'int8', 'int64', 'csr', 'csr0', 'list'], repeat=2):
                if not ctx.thorough and rng.random() < 0.7:
                    continue
                bsprod_case(s, A, B, 2, 2, ra, rb, f'overlap={overlap}')
                bsprod_case(s, A, [b], 2, 1, ra, rb, f'overlap={overlap}')
        # all-Y, density 0 / 1
        ally = [1] * (2 * n)
        for ra, rb in (('uint8', 'uint8'), ('csr', 'uint8'), ('uint8', 'csr'), ('int64', 'uint8')):
            bsprod_case(s, [ally], [ally], 1, 1, ra, rb, 'allY')
            bsprod_case(s, [ally, [0] * (2 * n)], [ally], 2, 1, ra, rb, 'allY')
    streams.append(s.run())

    # --- malformed shapes
    s = Stream('bs_prod-malformed')
    for la, lb in ((3, 4), (4, 3), (4, 6), (6, 4), (5, 5), (2, 2)):
        for ra, rb in (('uint8', 'uint8'), ('list', 'list'), ('csr', 'uint8'), ('int64', 'csr')):
            bsprod_case(s, [[1] * la], [[1] * lb], 1, 1, ra, rb, 'malformed')
    streams.append(s.run())

    # --- converters
    s = Stream('converters')
    letters = 'IXYZ'
    strs = [''.join(p) for n in range(1, 4 if ctx.thorough else 3) for p in itertools.product(letters, repeat=n)]
    strs += [''.join(rng.choice(list(letters), int(n))) for n in rng.integers(4, 200, 60)]
    for ps in strs:
        n = len(ps)
        b1 = guarded(lambda: vec([int(x) for x in bpauli.pauli_to_bsf(ps)]))
        s.add(f'p2b {ps}', b1, {'pauli': ps, 'fn': 'pauli_to_bsf'}, tag='p2b')
        b2 = guarded(lambda: vec([int(x) for x in bpauli.pauli_string_to_bvector(ps)]))
        s.add(f'p2b {ps}', b2, {'pauli': ps, 'fn': 'pauli_string_to_bvector'}, tag='p2b')
        v = [int(x) for x in bpauli.pauli_string_to_bvector(ps)]
        va = np.array(v, dtype='uint8')
        s.add(f'b2p {vec(v)}', guarded(lambda: bpauli.bvector_to_pauli_string(va)),
              {'bsf': v, 'fn': 'bvector_to_pauli_string'}, tag='b2p')
        s.add(f'b2p {vec(v)}', guarded(lambda: bpauli.bsf_to_pauli(va)),
              {'bsf': v, 'fn': 'bsf_to_pauli dense'}, tag='b2p')
        s.add(f'b2p {vec(v)}', guarded(lambda: bpauli.bsf_to_pauli(csr_matrix(va.reshape(1, -1)))[0]),
              {'bsf': v, 'fn': 'bsf_to_pauli sparse'}, tag='b2p', nontrivial=any(v))
        s.add(f'wt {vec(v)}', guarded(lambda: str(int(bpauli.bsf_wt(va)))),
              {'bsf': v, 'fn': 'bsf_wt dense'}, tag='wt')
        if any(v):
            s.add(f'wt {vec(v)}', guarded(lambda: str(int(bpauli.bsf_wt(csr_matrix(va.reshape(1, -1)))))),
                  {'bsf': v, 'fn': 'bsf_wt sparse'}, tag='wt')
        k = guarded(lambda: str(bpauli.bvector_to_int(va)))
        s.add(f'b2i {vec(v)}', k, {'bsf': v, 'fn': 'bvector_to_int'}, tag='b2i')
        if n <= 30:
            kk = int(''.join(map(str, v)), 2)
            s.add(f'i2b {kk} {n}', guarded(lambda: vec([int(x) for x in bpauli.int_to_bvector(kk, n)])),
                  {'int': kk, 'n': n, 'fn': 'int_to_bvector'}, tag='i2b')
    # weights of stacks (2-D input): dense of two dtypes and csr must agree with the model's sum over rows
    for _ in range(40):
        n, k = int(rng.integers(1, 7)), int(rng.integers(2, 6))
        S = [[int(x) for x in rng.integers(0, 2, 2 * n)] for _ in range(k)]
        if rng.random() < 0.3:
            S[int(rng.integers(k))] = [0] * (2 * n)
        Sa = np.array(S, dtype='uint8')
        s.add(f'wtstack {stack(S)}', guarded(lambda: str(int(bpauli.bsf_wt(Sa)))),
              {'stack': S, 'fn': 'bsf_wt dense 2-D'}, tag='wtstack')
        s.add(f'wtstack {stack(S)}', guarded(lambda: str(int(bpauli.bsf_wt(Sa.astype('int64'))))),
              {'stack': S, 'fn': 'bsf_wt dense 2-D int64'}, tag='wtstack')
        s.add(f'wtstack {stack(S)}', guarded(lambda: str(int(bpauli.bsf_wt(csr_matrix(Sa))))),
              {'stack': S, 'fn': 'bsf_wt sparse 2-D'}, tag='wtstack')
    # apply_deformation
    for _ in range(60):
        n = int(rng.integers(1, 12))
        flags = [int(x) for x in rng.integers(0, 2, n)]
        v = [int(x) for x in rng.integers(0, 2, 2 * n)]
        s.add(f'applydef {vec(flags)} {vec(v)}',
              guarded(lambda: vec([int(x) for x in bpauli.apply_deformation(
                  [bool(f) for f in flags], np.array(v, dtype='uint8'))])),
              {'flags': flags, 'bsf': v, 'fn': 'apply_deformation'}, tag='applydef')
    s.add('applydef 101 1111', guarded(lambda: vec(list(bpauli.apply_deformation(
        [True, False, True], np.array([1, 1, 1, 1])))), {'ValueError': 'ERR shape'}),
        {'fn': 'apply_deformation mismatch'}, tag='applydef')
    # brank
    for _ in range(80 if ctx.thorough else 30):
        r, c = int(rng.integers(1, 9)), int(rng.integers(1, 12))
        m = [[int(x) for x in rng.integers(0, 2, c)] for _ in range(r)]
        if rng.random() < 0.5 and r > 2:
            m[-1] = [(a + b) % 2 for a, b in zip(m[0], m[1])]
        s.add(f'brank {stack(m)}', guarded(lambda: str(bpauli.brank(np.array(m)))),
              {'matrix': m, 'fn': 'brank'}, tag='brank')
    streams.append(s.run())

    # --- panqec/bsparse.py, all 14 functions, against Model/BSparse.lean (harness/props/c03_bsparse.py)
    from harness.props import c03_bsparse
    streams += c03_bsparse.streams(ctx)
    # --- pure integer / list helpers of panqec/utils.py against Model/UtilsPure.lean (harness/props/c03_utils.py)
    from harness.props import c03_utils
    streams += c03_utils.streams(ctx)
    return streams


# ------------------------------------------------------------------ oracle

def symp_ref(a, b):
    n = len(a) // 2
    return (sum(a[i] * b[n + i] for i in range(n)) + sum(a[n + i] * b[i] for i in range(n))) % 2


def check_case(case):
    """Property statement evaluated on the implementation for one case; returns
    None or a failure description."""
    from panqec import bpauli
    kind = case['kind']
    try:
        if kind == 'bsprod':
            A, B = case['A'], case['B']
            a = conv(A, case['adim'], case['arep'])
            b = conv(B, case['bdim'], case['brep'])
            got = np.asarray(bpauli.bs_prod(a, b)).reshape(-1)
            want = [symp_ref(r, c) for r in A for c in B]
            if [int(x) for x in got] != want:
                return f'bs_prod={list(map(int, got))[:8]} symplectic form={want[:8]}'
            return None
        if kind == 'roundtrip':
            ps = case['pauli']
            v = bpauli.pauli_string_to_bvector(ps)
            v2 = bpauli.pauli_to_bsf(ps)
            if list(map(int, v)) != list(map(int, v2)):
                return 'pauli_to_bsf != pauli_string_to_bvector'
            n = len(ps)
            want = [1 if c in 'XY' else 0 for c in ps] + [1 if c in 'ZY' else 0 for c in ps]
            if list(map(int, v)) != want:
                return f'bsf of {ps} is {list(map(int, v))}'
            if bpauli.bvector_to_pauli_string(v) != ps:
                return 'bvector_to_pauli_string(pauli_string_to_bvector(p)) != p'
            if bpauli.bsf_to_pauli(v.astype('uint8')) != ps:
                return 'bsf_to_pauli dense'
            if any(want) and bpauli.bsf_to_pauli(csr_matrix(v.astype('uint8').reshape(1, -1)))[0] != ps:
                return 'bsf_to_pauli sparse'
            w = sum(1 for c in ps if c != 'I')
            if int(bpauli.bsf_wt(v.astype('uint8'))) != w:
                return 'bsf_wt dense'
            if any(want) and int(bpauli.bsf_wt(csr_matrix(v.astype('uint8').reshape(1, -1)))) != w:
                return 'bsf_wt sparse'
            k = bpauli.bvector_to_int(v)
            if list(map(int, bpauli.int_to_bvector(k, n))) != want:
                return 'int_to_bvector(bvector_to_int(v)) != v'
            # the conversions hand out values, not shared buffers: a caller that writes into a returned vector
            # (accumulating a product with ^=, as the analysis code does) must not change what the next
            # conversion of the same operator returns, nor a sibling of the same batch
            for f, arg in ((bpauli.pauli_string_to_bvector, (ps,)), (bpauli.pauli_to_bsf, (ps,)),
                           (bpauli.int_to_bvector, (k, n))):
                r = f(*arg)
                if isinstance(r, np.ndarray) and r.flags.writeable:
                    r ^= 1
                    if list(map(int, f(*arg))) != want:
                        return (f'{f.__name__} returns a different vector once the caller has written into an '
                                f'earlier result (conversion then conversion of the same operator)')
            batch = bpauli.ints_to_bvectors([k, k], n)
            if isinstance(batch, np.ndarray) or isinstance(batch, list):
                first = batch[0]
                if isinstance(first, np.ndarray) and first.flags.writeable:
                    first ^= 1
                    if list(map(int, batch[1])) != want:
                        return 'ints_to_bvectors([k, k]): writing into the first vector changes the second'
            return None
        if kind == 'stack':
            # a stack of operators in every 2-D representation: its weight is the number of non-identity
            # letters of its Pauli strings, which are the strings of its rows
            S = np.array(case['stack'], dtype='uint8')
            strings = [bpauli.bsf_to_pauli(r) for r in S]
            want = sum(1 for t in strings for c in t if c != 'I')
            for label, M in (('dense uint8', S), ('dense int64', S.astype('int64')), ('csr', csr_matrix(S))):
                got = int(bpauli.bsf_wt(M))
                if got != want:
                    return f'bsf_wt of the stack as {label} = {got}, its Pauli strings {strings} have {want} non-identity letters'
                if list(bpauli.bsf_to_pauli(M)) != strings:
                    return f'bsf_to_pauli of the stack as {label} differs from the strings of its rows'
            return None
        if kind == 'syndrome-sequence':
            from harness import codes as K
            code = K.build(case['class'], tuple(case['size']))
            rng = np.random.default_rng(case['seed'])
            steps = [None] + [tuple(d) for d in case['deforms']]
            for dname in steps:
                if dname is not None:
                    code.deform(dname[0], **dname[1])
                H = K.dense(code.stabilizer_matrix)
                for _ in range(3):
                    e = [int(x) for x in rng.integers(0, 2, 2 * code.n)]
                    f = [int(x) for x in rng.integers(0, 2, 2 * code.n)]
                    se = [int(x) for x in code.measure_syndrome(np.array(e, dtype='uint8'))]
                    if se != [symp_ref(r, e) for r in H]:
                        return (f'measure_syndrome differs from the symplectic products with the rows of H '
                                f'after {"deform " + str(dname) if dname else "construction"}')
                    sf = [int(x) for x in code.measure_syndrome(np.array(f, dtype='uint8'))]
                    ef = [(a + b) % 2 for a, b in zip(e, f)]
                    sef = [int(x) for x in code.measure_syndrome(np.array(ef, dtype='uint8'))]
                    if sef != [(a + b) % 2 for a, b in zip(se, sf)]:
                        return 'measure_syndrome is not GF(2)-linear'
            return None
        if kind == 'bsparse':
            # the sparse-row helpers on binary data, against plain list arithmetic (no model involved)
            from panqec import bsparse as B
            A, Bm, idx = case['A'], case['B'], case['indices']
            sa, sb = B.from_array(A), B.from_array(Bm)
            if B.to_array(sa).tolist() != A or B.to_array(B.from_array(np.array(A, dtype='uint8'))).tolist() != A:
                return 'to_array(from_array(M)) != M'
            if bool(B.equal(sa, sb)) != (A == Bm) or not B.equal(sa, B.from_array(A)):
                return f'equal(from_array(A), from_array(B)) = {bool(B.equal(sa, sb))} but A == B is {A == Bm}'
            if bool(B.equal(sa, 0)) != (not any(any(r) for r in A)) or bool(B.equal(0, sa)) != bool(B.equal(sa, 0)):
                return 'equal(M, 0) differs from "M has no one"'
            h = B.hstack([sa, sb])
            if B.to_array(h).tolist() != [ra + rb for ra, rb in zip(A, Bm)]:
                return 'hstack([a, b]) is not the row-wise concatenation'
            x, z = B.hsplit(h)
            if B.to_array(x).tolist() != A or B.to_array(z).tolist() != Bm:
                return 'hsplit(hstack([a, b])) != (a, b)'
            if B.to_array(B.vstack([sa, sb, sa])).tolist() != A + Bm + A:
                return 'vstack([a, b, a]) is not the concatenation of the rows'
            for ra, rb in zip(A, Bm):
                want = sum(p * q for p, q in zip(ra, rb)) % 2
                for u, v in ((B.from_array([ra]), B.from_array([rb])), (ra, B.from_array([rb])), (np.array(ra), rb)):
                    if int(B.dot(u, v)) != want:
                        return f'dot({ra}, {rb}) = {int(B.dot(u, v))}, GF(2) inner product = {want}'
                hx, hz = B.hsplit(B.hstack([B.from_array([ra]), B.from_array([rb])]))
                if (sorted(int(i) for i in hx.indices), sorted(int(i) for i in hz.indices)) != \
                        ([i for i, v in enumerate(ra) if v], [i for i, v in enumerate(rb) if v]) \
                        or hx.shape != (1, len(ra)) or hz.shape != (1, len(rb)):
                    return f'hsplit(hstack([{ra}, {rb}])) stores columns {hx.indices.tolist()} and {hz.indices.tolist()}'
                row = B.from_array([ra])
                cur = list(ra)
                for i in idx:
                    i = i % len(ra)
                    before = bool(B.is_one(i, row))
                    if before != bool(cur[i]):
                        return f'is_one({i}) = {before} on {cur}'
                    B.insert_mod2(i, row)
                    cur[i] ^= 1
                    if B.to_array(row).tolist() != [cur] or not B.equal(row, B.from_array([cur])):
                        return f'insert_mod2({i}) gives {B.to_array(row).tolist()} instead of {[cur]}'
            z0 = B.zero_row(len(A[0]))
            if B.to_array(z0).tolist() != [[0] * len(A[0])] or B.is_empty(z0) or not B.is_empty(B.empty_row(len(A[0]))) \
                    or B.to_array(B.zero_matrix((len(A), len(A[0])))).tolist() != [[0] * len(A[0])] * len(A):
                return 'zero_row / zero_matrix / empty_row'
            return None
        if kind == 'utils':
            from panqec import utils as U
            M = case['matrix']
            want = [(i, j) for i, r in enumerate(M) for j, v in enumerate(r) if v]
            if [tuple(int(x) for x in t) for t in U.list_where(M)] != want:
                return f'list_where({M}) != {want}'
            if {tuple(int(x) for x in t) for t in U.set_where(M)} != set(want):
                return 'set_where'
            d = {i: v for i, v in enumerate(M[0])}
            if U.dict_where(d) != {k for k, v in d.items() if v}:
                return 'dict_where'
            arr, val = case['array'], case['value']
            got = int(U.find_nearest(arr, val))
            if got not in arr or any(abs(a - val) < abs(got - val) for a in arr):
                return f'find_nearest({arr}, {val}) = {got}'
            return None
        if kind == 'brank':
            m = np.array(case['matrix'])
            got = bpauli.brank(m)
            want = gf2_rank_ref(case['matrix'])
            if got != want:
                return f'brank={got} rank={want}'
            return None
    except Exception as e:  # noqa
        return f'raised {type(e).__name__}: {e}'
    return None


def gf2_rank_ref(m):
    rows = [list(r) for r in m]
    rank = 0
    ncol = len(rows[0]) if rows else 0
    for c in range(ncol):
        piv = None
        for i in range(rank, len(rows)):
            if rows[i][c] % 2:
                piv = i
                break
        if piv is None:
            continue
        rows[rank], rows[piv] = rows[piv], rows[rank]
        for i in range(len(rows)):
            if i != rank and rows[i][c] % 2:
                rows[i] = [(a + b) % 2 for a, b in zip(rows[i], rows[rank])]
        rank += 1
    return rank


def oracle_cases(ctx, deep):
    rng = ctx.np_rng(11)
    cases = []
    nmax = 3 if deep else 2
    for n in range(1, nmax + 1):
        vs = all_bsf(n)
        pairs = list(itertools.product(vs, vs))
        if n == 3 and not deep:
            continue
        for a, b in pairs:
            reps = itertools.product(REPRS, REPRS) if n == 1 else \
                [(REPRS[i], REPRS[j]) for i, j in rng.integers(0, len(REPRS), (3 if n == 2 else 1, 2))]
            for ra, rb in reps:
                cases.append({'kind': 'bsprod', 'A': [a], 'B': [b], 'adim': 1, 'bdim': 1, 'arep': ra, 'brep': rb})
                cases.append({'kind': 'bsprod', 'A': [a, b], 'B': [b], 'adim': 2, 'bdim': 1, 'arep': ra, 'brep': rb})
    for n in ([130, 300, 600] if deep else [300]):
        for overlap in (2, 255, 256, 257, 512):
            if overlap > n:
                continue
            a = [0] * (2 * n)
            b = [0] * (2 * n)
            for p in rng.choice(n, overlap, replace=False):
                a[p] = 1
                b[n + p] = 1
            for ra, rb in itertools.product(['uint8', 'int8', 'int64', 'csr', 'csr0', 'list'], repeat=2):
                cases.append({'kind': 'bsprod', 'A': [a, [1] * (2 * n)], 'B': [b, a], 'adim': 2, 'bdim': 2,
                              'arep': ra, 'brep': rb})
    for n in range(1, 4):
        for p in itertools.product('IXYZ', repeat=n):
            cases.append({'kind': 'roundtrip', 'pauli': ''.join(p)})
    for n in rng.integers(4, 120, 30):
        cases.append({'kind': 'roundtrip', 'pauli': ''.join(rng.choice(list('IXYZ'), int(n)))})
    for _ in range(60 if deep else 25):
        n, k = int(rng.integers(1, 7)), int(rng.integers(2, 6))
        cases.append({'kind': 'stack', 'stack': [[int(x) for x in rng.integers(0, 2, 2 * n)] for _ in range(k)]})
    cases.append({'kind': 'stack', 'stack': [[1, 0, 0, 1], [1, 1, 1, 1], [0, 0, 0, 0]]})    # corpus: fix 95658e4
    for _ in range(40):
        r, c = int(rng.integers(1, 8)), int(rng.integers(1, 10))
        cases.append({'kind': 'brank', 'matrix': [[int(x) for x in rng.integers(0, 2, c)] for _ in range(r)]})
    for _ in range(80 if deep else 30):
        r, c = int(rng.integers(1, 5)), 2 * int(rng.integers(1, 6))
        cases.append({'kind': 'bsparse', 'A': [[int(x) for x in rng.integers(0, 2, c)] for _ in range(r)],
                      'B': [[int(x) for x in rng.integers(0, 2, c)] for _ in range(r)],
                      'indices': [int(x) for x in rng.integers(0, 64, 6)]})
        cases.append({'kind': 'utils', 'matrix': [[int(x) for x in rng.integers(0, 2, c)] for _ in range(r)],
                      'array': [int(x) for x in rng.integers(-20, 21, int(rng.integers(1, 8)))], 'value': int(rng.integers(-25, 26))})
    cases.append({'kind': 'bsparse', 'A': [[0, 0, 0, 0]], 'B': [[0, 0, 0, 0]], 'indices': [0, 3, 0, 3]})
    cases.append({'kind': 'bsparse', 'A': [[1, 1], [0, 1]], 'B': [[1, 1], [0, 1]], 'indices': [1, 1, 0]})
    # syndrome measurement on one object across deformations (measure, deform, measure again)
    from harness import codes as K
    for cls in (K.CLASSES if deep else ['Toric2DCode', 'RotatedPlanar2DCode', 'Toric3DCode', 'Color488Code',
                                        'RhombicPlanarCode', 'XCubeCode']):
        defs = K.deformations(cls)[1:]
        if not defs:
            continue
        size = (K.all_sizes(cls, 2, n_max=80) or K.all_sizes(cls, 3, n_max=80) or K.all_sizes(cls, 4, n_max=120))[-1]
        cases.append({'kind': 'syndrome-sequence', 'class': cls, 'size': list(size), 'seed': int(rng.integers(0, 10 ** 6)),
                      'deforms': [[d[0], d[1]] for d in (defs + defs[:1])[:3]]})
    return cases


def oracle(ctx, deep=False, broken=None):
    cases = oracle_cases(ctx, deep)
    fails = first_failures(cases, check_case, key=lambda c: {k: c[k] for k in c if k in
                                                             ('kind', 'arep', 'brep', 'adim', 'bdim', 'class')})
    # symmetric / alternating / bilinear are consequences of equality with the reference form
    return fails, {'evaluations': len(cases)}


def replay(ctx, payload):
    return check_case(payload['input']) is not None
