"""Correspondence streams shared by the hand-written all-sizes lattice models of the cubic-lattice
3-D surface codes (Toric3DCode, Planar3DCode): the implementation's getters against the Lean model
driver (`lat <Class> <Lx> <Ly> <Lz> <query>`), in index order / dict insertion order."""
from __future__ import annotations

import itertools

from harness.core import Stream
from harness.util import guarded

ERR = {'ValueError': 'ERR value'}


def cstr(c):
    return '.'.join(str(int(x)) for x in c)


def coords_str(cs):
    cs = list(cs)
    return ';'.join(cstr(c) for c in cs) if cs else '_'


def op_str(op):
    items = list(op.items())
    return ';'.join(f'{cstr(k)}:{v}' for k, v in items) if items else '-'


def ops_str(ops):
    ops = list(ops)
    return '|'.join(op_str(o) for o in ops) if ops else '_'


def map_str(m):
    if isinstance(m, NotImplementedError):
        # the base-class get_deformation RETURNS (does not raise) a NotImplementedError instance
        return 'ERR notimplemented'
    return ''.join(m[p] for p in 'XYZ')


def sizes_for(ctx, cls, supported, salt, extra_sizes=()):
    """(size, tag) list: every cuboid size with all L_i <= 3 (4 in the thorough tier) that the
    family supports, a few random larger ones, and a few sizes outside the family (the model
    transcribes the code for every size, e.g. the dict overwrite at a period of 1)."""
    rng = ctx.np_rng(salt)
    top = 4 if ctx.thorough else 3
    out = []
    outside = []
    for L in itertools.product(range(1, top + 1), repeat=3):
        if supported(L):
            out.append((L, 'family'))
        elif max(L) <= 2 or ctx.thorough:
            outside.append((L, 'outside-family'))
    big_top, n_big = (8, 8) if ctx.thorough else (6, 3)
    seen = {s for s, _ in out + outside}
    tries = 0
    while n_big and tries < 200:
        tries += 1
        L = tuple(int(v) for v in rng.integers(1, big_top + 1, 3))
        if L in seen or not supported(L) or max(L) <= top:
            continue
        seen.add(L)
        out.append((L, 'family-larger'))
        n_big -= 1
    for L in extra_sizes:
        L = tuple(L)
        if L not in seen and supported(L):
            seen.add(L)
            out.append((L, 'family-larger'))
    return out + outside


def probe_locations(code, rng, k=12):
    """locations that are neither necessarily qubits nor stabilizers: just outside the box,
    negative, and random"""
    Lx, Ly, Lz = code.size
    locs = [(-1, 0, 0), (0, -1, 0), (0, 0, -1), (2 * Lx, 0, 0), (0, 2 * Ly, 0), (0, 0, 2 * Lz),
            (2 * Lx + 1, 0, 0), (1, 1, 1), (2 * Lx - 1, 2 * Ly - 1, 2 * Lz - 1), (0, 0, 0),
            (1, 2 * Ly, 0), (2 * Lx, 1, 0), (0, 0, 2 * Lz + 1), (-1, -1, 0), (-2, 0, 1),
            (1, 0), (1, 0, 0, 0), (0,)]
    for _ in range(k):
        locs.append(tuple(int(v) for v in rng.integers(-3, 2 * max(code.size) + 4, 3)))
    return locs


def gf2_rank(rows):
    """rank over GF(2) of rows given as Python ints"""
    piv = {}
    for v in rows:
        while v:
            h = v.bit_length() - 1
            if h in piv:
                v ^= piv[h]
            else:
                piv[h] = v
                break
    return len(piv)


def rank_post(klass):
    """canonicaliser of the `rankfamily` stream: the model prints the family of stabilizer locations
    of the theorem `rank_family`; it is evaluated on the IMPLEMENTATION's parity-check matrix
    (membership, distinctness, count n - k, GF(2) rank of the selected rows)"""
    from harness import codes as K

    def post(op, out):
        toks = op.split()
        size = tuple(int(t) for t in toks[2:-1])   # `lat <Class> <L...> rankfamily`: 2 or 3 sides
        try:
            code = klass(*size)
            locs = [] if out == '_' else [tuple(int(v) for v in c.split('.')) for c in out.split(';')]
            if len(set(locs)) != len(locs):
                return 'repeated location'
            bad = [l for l in locs if l not in code.stabilizer_index]
            if bad:
                return f'not a stabilizer location: {bad[0]}'
            H = K.dense(code.stabilizer_matrix) if code.n_stabilizers else []
            rows = [K.pack(H[code.stabilizer_index[l]]) for l in locs]
            return f'members {len(locs)} rank {gf2_rank(rows)}'
        except Exception as e:  # noqa
            return f'EXC:{type(e).__name__}'
    return post


def streams_for(ctx, cls, supported, salt, extra_sizes=(), with_rank=True):
    import panqec.codes as C
    klass = getattr(C, cls)
    rng = ctx.np_rng(salt + 1)
    s_coord = Stream(f'lat-{cls}-coordinates')
    s_stab = Stream(f'lat-{cls}-get_stabilizer')
    s_log = Stream(f'lat-{cls}-logicals')
    s_attr = Stream(f'lat-{cls}-axis-type')
    s_def = Stream(f'lat-{cls}-get_deformation')
    s_rank = Stream(f'lat-{cls}-rank-family', post=rank_post(klass))
    for size, tag in sizes_for(ctx, cls, supported, salt, extra_sizes):
        pre = f'lat {cls} ' + ' '.join(map(str, size))
        label = f'{cls}{tuple(size)}'
        try:
            code = klass(*size)
            qs = list(code.qubit_coordinates)
            ss = list(code.stabilizer_coordinates)
        except Exception as e:  # noqa
            s_coord.add(f'{pre} qubits', f'EXC:{type(e).__name__}', {'code': label}, tag='construct-fail')
            continue
        s_coord.add(f'{pre} qubits', coords_str(qs), {'code': label, 'what': 'qubit_coordinates'}, tag=tag)
        s_coord.add(f'{pre} stabs', coords_str(ss), {'code': label, 'what': 'stabilizer_coordinates'}, tag=tag)
        s_coord.add(f'{pre} n', guarded(lambda: str(code.n)), {'code': label, 'what': 'n'}, tag=tag)
        s_coord.add(f'{pre} k', guarded(lambda: str(code.k)), {'code': label, 'what': 'k'}, tag=tag)
        s_log.add(f'{pre} logx', guarded(lambda: ops_str(code.get_logicals_x())),
                  {'code': label, 'what': 'get_logicals_x'}, tag=tag)
        s_log.add(f'{pre} logz', guarded(lambda: ops_str(code.get_logicals_z())),
                  {'code': label, 'what': 'get_logicals_z'}, tag=tag)
        if with_rank and supported(size):
            nk = guarded(lambda: code.n - code.k)
            s_rank.add(f'{pre} rankfamily', f'members {nk} rank {nk}',
                       {'code': label, 'what': 'independent family of n-k generators (theorem rank_family) '
                        'evaluated on stabilizer_matrix'}, tag=tag)
        probes = probe_locations(code, rng)
        for loc in ss:
            s_stab.add(f'{pre} stab {cstr(loc)}', guarded(lambda: op_str(code.get_stabilizer(loc)), ERR),
                       {'code': label, 'location': list(loc), 'what': 'get_stabilizer'}, tag=tag)
            s_attr.add(f'{pre} type {cstr(loc)}', guarded(lambda: str(code.stabilizer_type(loc)), ERR),
                       {'code': label, 'location': list(loc), 'what': 'stabilizer_type'}, tag=tag)
        for loc in qs[:3] + probes:
            s_stab.add(f'{pre} stab {cstr(loc)}', guarded(lambda: op_str(code.get_stabilizer(loc)), ERR),
                       {'code': label, 'location': list(loc), 'what': 'get_stabilizer (not a stabilizer?)'},
                       tag=tag + ':probe')
            s_attr.add(f'{pre} type {cstr(loc)}', guarded(lambda: str(code.stabilizer_type(loc)), ERR),
                       {'code': label, 'location': list(loc), 'what': 'stabilizer_type (not a stabilizer?)'},
                       tag=tag + ':probe')
        for loc in qs:
            s_attr.add(f'{pre} axis {cstr(loc)}', guarded(lambda: str(code.qubit_axis(loc)), ERR),
                       {'code': label, 'location': list(loc), 'what': 'qubit_axis'}, tag=tag)
        for loc in ss[:3] + probes:
            s_attr.add(f'{pre} axis {cstr(loc)}', guarded(lambda: str(code.qubit_axis(loc)), ERR),
                       {'code': label, 'location': list(loc), 'what': 'qubit_axis (not a qubit?)'},
                       tag=tag + ':probe')
        names = ['XZZX', 'XY', 'xzzx']
        axes = ['-', 'x', 'y', 'z', 'w']
        for loc in qs + ss[:2] + probes[:6] + [(1, 0), (1, 0, 0, 0)]:
            for name in names:
                for ax in axes:
                    if name != 'XZZX' and loc not in qs[:4]:
                        continue

                    def call():
                        if ax == '-':
                            return map_str(code.get_deformation(loc, name))
                        return map_str(code.get_deformation(loc, name, deformation_axis=ax))
                    s_def.add(f'{pre} deform {name} {ax} {cstr(loc)}', guarded(call, ERR),
                              {'code': label, 'location': list(loc), 'name': name, 'axis': ax,
                               'what': 'get_deformation'}, tag=tag)
    return [s.run() for s in (s_coord, s_stab, s_log, s_attr, s_def) + ((s_rank,) if with_rank else ())]
