"""XCubeMatchingDecoder (C05, C06): correspondence between the implementation and the Lean model
`Model/XCubeDecoder.lean`.

The implementation is run under
* the boundary spies of `harness/props/c05.py` (pymatching.Matching as imported by
  `MatchingDecoder`, ldpc's BpOsdDecoder as imported by the BP-OSD decoder): every matrix,
  weight vector, sliced syndrome and answer is recorded;
* call-through spies on the module-level helpers of `_xcube_matching_decoder.py`
  (`get_matched_pairs`, `find_connected_components`, `get_toric_loop`, `decode_plane`): their
  results are the trace;
* a profile hook that copies `possible_correction`, `weight`, `index_min_weight` from the frame
  of `decode` when it returns.

The model driver op `dec.xcube` derives everything from the lattice size (hand-written lattice
models of XCubeCode / Toric2DCode), replays the glue on the recorded solver answers, and must
print the same events, the same result (or `ERR KeyError (key)`) and the same trace.
"""
from __future__ import annotations

import contextlib
import itertools
import sys
from typing import Any, Dict, List

import numpy as np

from harness.core import Stream
from harness.props import c05 as D

ALL_SMALL = [(a, b, c) for a in (2, 3) for b in (2, 3) for c in (2, 3)]
EXTRA_SIZES = [(2, 3, 4), (4, 2, 2), (2, 4, 3), (3, 3, 4), (4, 4, 4)]
AXES = ('x', 'y', 'z')


def coords_text(cs) -> str:
    cs = [tuple(int(x) for x in c) for c in cs]
    return ';'.join('(' + ','.join(map(str, c)) + ')' for c in cs) if cs else '-'


@contextlib.contextmanager
def helper_spies(trace: List[str]):
    """call-through spies on the pure helpers of the decoder module"""
    from unittest import mock
    import panqec.decoders.xcube._xcube_matching_decoder as xmod
    real = {k: getattr(xmod, k) for k in ('get_matched_pairs', 'find_connected_components',
                                          'get_toric_loop', 'decode_plane')}

    def pairs(*a, **k):
        r = real['get_matched_pairs'](*a, **k)
        trace.append('P:' + (','.join(f'{int(x)}-{int(y)}' for x, y in r) if r else '-'))
        return r

    def comps(*a, **k):
        r = real['find_connected_components'](*a, **k)
        trace.append('C:' + '/'.join(','.join(str(int(x)) for x in c) for c in r))
        return r

    def loop(*a, **k):
        r = real['get_toric_loop'](*a, **k)
        trace.append('L:' + coords_text(sorted(tuple(int(x) for x in c) for c in r)))
        return r

    def plane(*a, **k):
        r = real['decode_plane'](*a, **k)
        trace.append('K:' + coords_text(r))
        return r

    with mock.patch.object(xmod, 'get_matched_pairs', pairs), \
            mock.patch.object(xmod, 'find_connected_components', comps), \
            mock.patch.object(xmod, 'get_toric_loop', loop), \
            mock.patch.object(xmod, 'decode_plane', plane):
        yield


class FrameCapture:
    """copies the scatter vectors from the frame of XCubeMatchingDecoder.decode when it returns"""

    def __init__(self):
        from panqec.decoders import XCubeMatchingDecoder
        self.code = XCubeMatchingDecoder.decode.__code__
        self.last = None

    def prof(self, frame, event, arg):
        if event == 'return' and frame.f_code is self.code:
            L = frame.f_locals
            if 'index_min_weight' in L and 'z_correction' in L:
                pcs = [np.array(L['possible_correction'][a]).astype(np.int64) for a in AXES]
                i = int(L['index_min_weight'])
                pcs[i] = pcs[i] - np.array(L['z_correction']).astype(np.int64)
                self.last = (pcs, [int(w) for w in L['weight']], i)

    def __enter__(self):
        self.old = sys.getprofile()
        sys.setprofile(self.prof)
        return self

    def __exit__(self, *a):
        sys.setprofile(self.old)


def exc_text(e) -> str:
    name = type(e).__name__
    if name == 'KeyError':
        k = e.args[0] if e.args else ()
        try:
            key = [int(x) for x in k] if isinstance(k, (tuple, list)) else [int(k)]
        except Exception:  # noqa: BLE001
            return 'ERR KeyError (?)'
        return 'ERR KeyError (' + ','.join(map(str, key)) + ')'
    return D.ERRMAP.get(name, f'EXC:{name}')


def struct_text(dec, code) -> str:
    out = [f'n={code.n} m={code.n_stabilizers} rows={code.stabilizer_matrix.shape[0]} '
           f'css={"true" if code.is_css else "false"}']
    Ls = dict(zip(AXES, code.size))
    for a in AXES:
        t = dec.toric_code[a]
        m = dec.matching_decoder[a]
        out.append(f'[{t.size[0]},{t.size[1]} n={t.n} m={t.n_stabilizers} planes={Ls[a]} '
                   f'X={m.matcher_x._k}:{D.rats(m.matcher_x._w)} Z={m.matcher_z._k}:{D.rats(m.matcher_z._w)}]')
    return ' '.join(out)


def xcube_case(s: Stream, spec: Dict[str, Any], errors, tag, with_struct=False, mutate=None):
    """Build the decoder under the spies, decode the syndromes of `errors` (supports) one after the
    other on one object, add the op that replays the model on the recorded answers.
    `mutate(syndrome)` optionally transforms a syndrome (malformed inputs)."""
    from panqec.codes import XCubeCode
    from panqec.decoders import XCubeMatchingDecoder
    from panqec.error_models import PauliErrorModel
    size = tuple(spec['size'])
    axis = spec.get('deformation_axis')
    code = XCubeCode(*size)
    if axis:
        code.deform('XZZX', deformation_axis=axis)
        em = PauliErrorModel(*spec['direction'], deformation_name='XZZX',
                             deformation_kwargs={'deformation_axis': axis})
    else:
        em = PauliErrorModel(*spec['direction'])
    p = spec['p']
    n = code.n
    rec = D.Recorder()
    calls = []
    results = []
    syndromes = []
    with D.spies(rec, 'prior'):
        with D.quiet():
            dec = XCubeMatchingDecoder(code, em, p)
        st = struct_text(dec, code)
        dict_at_ctor = rec.dict_text()
        for err in errors:
            if isinstance(err, np.ndarray):
                syn = err
            else:
                syn = np.asarray(code.measure_syndrome(D.error_from(n, err[0], err[1])))
            if mutate is not None:
                syn = mutate(syn)
            syndromes.append(np.array(syn).copy())
            before = np.array(syn).copy()
            i0 = len(rec.events)
            trace: List[str] = []
            cap = FrameCapture()
            try:
                with D.quiet(), D.time_limit(), helper_spies(trace), cap:
                    c = dec.decode(syn)
                res = D.ivec(c)
                results.append(np.array(c).copy())
                if cap.last is not None:
                    pcs, w, i = cap.last
                    trace.append('Q:' + '|'.join(D.ivec(v) for v in pcs) + ':' + ','.join(map(str, w)) + f':{i}')
            except Exception as e:  # noqa: BLE001
                res = exc_text(e)
                results.append(None)
            if not (np.asarray(syn).shape == before.shape and np.array_equal(np.asarray(syn), before)):
                res += ' INPUT-MODIFIED'
            calls.append(D.events_text(rec.events[i0:]) + '=>' + res + '~~' + (' '.join(trace) if trace else '-'))
    px, py, pz = D.prob_text(em, code, p)
    inp = dict(spec)
    inp['decoder'] = 'XCubeMatchingDecoder'
    inp['syndromes'] = [[int(x) for x in np.asarray(sy).reshape(-1)] for sy in syndromes]
    lx, ly, lz = size
    if with_struct:
        s.add(f'dec.xcube.struct {lx} {ly} {lz} {axis or "none"} {px} {py} {pz} {dict_at_ctor}', st,
              dict(inp, what='structure built by __init__'), tag='struct')
    op = (f'dec.xcube {lx} {ly} {lz} {axis or "none"} {px} {py} {pz} {D.fr(D.frac(p))} '
          f'{rec.dict_text()} {D.table_text(rec.events)} {D.syn_text(syndromes)}')
    if max(size) >= 5:
        # a plane index >= 8 wraps in the hash table of a small CPython set: `list(nodes_in_component)` is no
        # longer ascending.  The model is parametric in that order (boundary: CPython set iteration); hand it
        # the orders CPython produced.  One set object iterates in one order, but two sets with the same
        # elements built by different insertion histories may differ: such a case is not compared.
        orders = {}
        for call in calls:
            for t in call.split('~~', 1)[1].split(' '):
                if t.startswith('C:') and len(t) > 2:
                    for c in t[2:].split('/'):
                        if c:
                            key = tuple(sorted(int(x) for x in c.split(',')))
                            if orders.setdefault(key, c) != c:
                                s.skipped = getattr(s, 'skipped', 0) + 1
                                return results
        op += ' ' + ('/'.join(orders.values()) or '-')
    nontrivial = any(np.any(np.asarray(sy)) for sy in syndromes)
    s.add(op, ' || '.join(calls), inp, nontrivial=bool(nontrivial), tag=tag)
    return results


def chunks(xs, k):
    for i in range(0, len(xs), k):
        yield xs[i:i + k]


def shape(size):
    size = list(size)
    if len(set(size)) == 1:
        return 'cubic'
    return 'ascending' if size == sorted(size) else 'unordered'


def weight12_stream(ctx, rng, name='xcube-weight-1-2') -> Stream:
    """every single-qubit X error (and a sample of Z / Y ones) and weight-2 X errors (exhaustive
    on the smallest lattices in the thorough tier, sampled otherwise), every size in {2,3}^3"""
    thorough = ctx.thorough
    s = Stream(name)
    sizes = ALL_SMALL + (EXTRA_SIZES if thorough else EXTRA_SIZES[:1])
    for size in sizes:
        n = 3 * size[0] * size[1] * size[2]
        if n > 100 and not thorough:
            continue
        spec = {'size': list(size), 'direction': [0.25, 0.25, 0.5], 'p': 0.125}
        w1 = [([q], []) for q in range(n)]
        extra = [([], [int(q)]) for q in rng.choice(n, 3, replace=False)] + \
                [([int(q)], [int(q)]) for q in rng.choice(n, 2, replace=False)]
        first = True
        for ch in chunks(w1 + extra, 14):
            xcube_case(s, spec, ch, f'w1:{shape(size)}', with_struct=first)
            first = False
        pairs = list(itertools.combinations(range(n), 2))
        if not (thorough and n <= 54):
            k = (420 if n <= 100 else 56) if thorough else (42 if n <= 36 else 28)
            pairs = [pairs[i] for i in sorted(rng.choice(len(pairs), min(k, len(pairs)), replace=False))]
        for ch in chunks([([a, b], []) for a, b in pairs], 14):
            xcube_case(s, spec, ch, f'w2:{shape(size)}')
    return s.run()


LONG_SIZES = [(5, 2, 2), (2, 5, 2), (2, 2, 5), (6, 2, 2), (2, 6, 2), (2, 2, 6), (5, 3, 2), (2, 3, 7)]


def long_sides_stream(ctx, rng, name='xcube-long-sides') -> Stream:
    """lattices with a side of 5 or more: planes 9, 11, ... exist along that axis, `list(set)` of a component is
    no longer ascending (the reference plane of a component can lie ABOVE the plane being projected, so the
    first projection loop crosses the periodic seam); weight-2 and weight-3 X errors spread along the long
    axis, a few random errors.  The recorded `list(set)` orders are handed to the model."""
    thorough = ctx.thorough
    s = Stream(name)
    from panqec.codes import XCubeCode
    sizes = LONG_SIZES if thorough else [LONG_SIZES[i] for i in sorted(rng.choice(len(LONG_SIZES), 3, replace=False))]
    import time as _time
    t0 = _time.time()
    for size in sizes:
        if _time.time() - t0 > (900 if thorough else 300):
            # wall-clock budget (about 4x what the unchanged tree needs): an implementation whose BP-OSD stage
            # stops converging spends seconds per decode here; the sizes done so far are compared
            s.hist['stopped-by-time-budget'] = 1
            break
        code = XCubeCode(*size)
        n = code.n
        spec = {'size': list(size), 'direction': [0.25, 0.25, 0.5], 'p': 0.125}
        pairs = list(itertools.combinations(range(n), 2))
        k = 420 if thorough else 112
        pairs = [pairs[i] for i in sorted(rng.choice(len(pairs), min(k, len(pairs)), replace=False))]
        for ch in chunks([([int(a), int(b)], []) for a, b in pairs], 14):
            xcube_case(s, spec, ch, f'long-w2:{size}')
        triples = [sorted(int(q) for q in rng.choice(n, 3, replace=False)) for _ in range(84 if thorough else 28)]
        for ch in chunks([(t, []) for t in triples], 14):
            xcube_case(s, spec, ch, f'long-w3:{size}')
        em = D.make_noise((1 / 3, 1 / 3, 1 / 3))
        errs = [D.supports(e, n) for e in D.random_errors(code, em, rng, 6, rates=(0.02, 0.05, 0.1))]
        xcube_case(s, spec, errs, f'long-random:{size}')
    return s.run()


def random_stream(ctx, rng, name='xcube-random-deformed-malformed') -> Stream:
    """random errors at several rates with various noise directions / rates (the weights of the
    toric matchers change with them), the three XZZX deformations, malformed syndromes"""
    thorough = ctx.thorough
    s = Stream(name)
    from panqec.codes import XCubeCode
    sizes = ALL_SMALL + EXTRA_SIZES[: (5 if thorough else 1)]
    for size in sizes:
        code = XCubeCode(*size)
        for rep in range(3 if thorough else 1):
            d = D.DIRECTIONS[int(rng.integers(0, len(D.DIRECTIONS)))]
            p = D.RATES[int(rng.integers(0, len(D.RATES)))]
            em = D.make_noise(d)
            errs = [D.supports(e, code.n) for e in D.random_errors(code, em, rng, 8, rates=(0.03, 0.08, 0.15, 0.3))]
            errs.append([[], []])
            errs.append(errs[0])
            xcube_case(s, {'size': list(size), 'direction': list(d), 'p': p}, errs, f'random:{shape(size)}',
                       with_struct=True)
    for size in ([(2, 2, 2), (2, 2, 3), (3, 2, 2), (3, 3, 3)] if thorough else [(2, 2, 2), (2, 3, 2)]):
        code = XCubeCode(*size)
        for axis in AXES:
            d = D.DIRECTIONS[int(rng.integers(0, 3))]
            em = D.make_noise(d)
            errs = [D.supports(e, code.n) for e in D.random_errors(code, em, rng, 4)]
            errs += [[[0], []], [[], []]]
            xcube_case(s, {'size': list(size), 'direction': list(d), 'p': 0.125, 'deformation_axis': axis},
                       errs, f'deformed-{axis}:{shape(size)}', with_struct=True)
    # a walk of get_matched_pairs that never ends: zero matching weights (pure X noise at rate 1/2) make
    # PyMatching return an answer with a cycle; the implementation runs into the watchdog, the model into
    # its exact fuel (`XErr.hang`), at the same point of the program (one case, ~20 s: thorough tier only)
    if thorough:
        xcube_case(s, {'size': [3, 3, 3], 'direction': [1.0, 0.0, 0.0], 'p': 0.5},
                   [([11, 13, 19, 28, 29, 30, 32, 34, 44, 48, 61, 68, 72, 77, 79], [])], 'nonterminating-walk')
    # malformed: wrong length, non-binary entries (truthiness of `if syndrome[i_stab]`)
    for size in [(2, 2, 2), (3, 2, 2)]:
        code = XCubeCode(*size)
        m = code.n_stabilizers
        spec = {'size': list(size), 'direction': [0.25, 0.25, 0.5], 'p': 0.125}
        bad = [np.zeros(m - 1, dtype='uint8'), np.ones(m + 1, dtype='uint8'), np.zeros(0, dtype='uint8')]
        xcube_case(s, spec, bad, 'malformed:length')
        xcube_case(s, spec, [([0], []), ([1, 5], [2])], 'malformed:non-binary',
                   mutate=lambda sy: (np.asarray(sy).astype('int64') * 3))
    return s.run()


def history_stream(ctx, rng, name='xcube-histories') -> Stream:
    """C06: longer histories on one decoder object (repeated syndromes, zero syndromes, sector-wise
    parts of the same error); the model threads the BP-OSD state through the calls and must return
    the same corrections; the caller's syndrome array is compared before/after every call"""
    thorough = ctx.thorough
    s = Stream(name)
    from panqec.codes import XCubeCode
    sizes = ALL_SMALL if thorough else [(2, 2, 2), (2, 2, 3), (2, 3, 2), (3, 2, 2), (3, 3, 3)]
    for size in sizes:
        code = XCubeCode(*size)
        n = code.n
        for axis in ([None] + list(AXES) if (thorough or size == (2, 2, 2)) else [None]):
            d = D.DIRECTIONS[int(rng.integers(0, 3))]
            em = D.make_noise(d)
            errs = [D.supports(e, n) for e in D.random_errors(code, em, rng, 5, rates=(0.03, 0.1, 0.2))]
            hist = []
            for e in errs:
                hist.append(e)
                r = rng.random()
                if r < 0.25:
                    hist.append([[], []])
                elif r < 0.5:
                    hist.append([e[0], []])
                elif r < 0.7:
                    hist.append(e)
            hist.append(errs[0])
            spec = {'size': list(size), 'direction': list(d), 'p': 0.0625}
            if axis:
                spec['deformation_axis'] = axis
            xcube_case(s, spec, hist, f'history:{shape(size)}:{"deformed" if axis else "css"}')
    return s.run()
