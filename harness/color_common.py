"""Correspondence streams shared by the hand-written 2-D colour-code lattice models
(harness/lattices/color666planarcode.py, color488code.py, color666toriccode.py): the model driver's
`lat <Class> <Lx> <Ly> ...` ops against the live class, in index / dict-insertion order.

Colour codes differ from the surface codes of harness/lat2d_common.py: stabilizer locations are
3-tuples (x, y, 0|1), the qubit list is derived from the stabilizers (first-occurrence order is part
of what is compared), `get_deformation` takes no axis (keyword arguments are ignored; Color666Planar
has none and RETURNS a NotImplementedError instance)."""
from __future__ import annotations

import itertools

from harness import codes as K
from harness.core import Stream
from harness.util import guarded, stack
from harness.props.c02 import cstr, coords_str, op_str, ops_str

NAMES = ['XXZZ', 'X3Z3', 'XZZX', 'XY', 'nope']     # each class knows at most one of them
KWARGS = [{}, {'deformation_axis': 'x'}, {'deformation_axis': 'q'}]   # ignored by the classes


def sizes_for(ctx, cls, salt):
    """(size passed to the constructor) every supported size with L <= small_max (rectangular ones
    included for Color488Code) + random larger ones; Color666PlanarCode ignores L_y, so some
    rectangular calls are added for it"""
    rng = ctx.np_rng(salt)
    small_max = 7 if ctx.thorough else 5
    sizes = K.all_sizes(cls, small_max)
    big_max = (16 if ctx.thorough else 11) if cls == 'Color666PlanarCode' else (12 if ctx.thorough else 9)
    n_big = 6 if ctx.thorough else 2
    seen = set(sizes)
    tries = 0
    while n_big and tries < 200:
        tries += 1
        L = int(rng.integers(small_max + 1, big_max + 1))
        s = (L, L)
        if cls == 'Color488Code' and tries % 2 == 0:
            # rectangular sizes are supported: one side beyond small_max, the other anywhere
            M = int(rng.integers(1, big_max + 1))
            s = (L, M) if tries % 4 == 0 else (M, L)
        if s in seen or not K.supported(cls, s):
            continue
        seen.add(s)
        sizes.append(s)
        n_big -= 1
    if cls == 'Color666PlanarCode':
        sizes += [(1, 3), (2, 5), (3, 1), (4, 9)]
    return sizes


def deform_answer(code, loc, name, kw):
    def f():
        d = code.get_deformation(loc, name, **kw)
        if isinstance(d, BaseException):
            return f'RET:{type(d).__name__}'
        return d['X'] + d['Y'] + d['Z']
    return guarded(f)


def extra_locations(cls, size):
    """2-tuples around the corners / seams of the lattice and a few far away (qubit-like probes)"""
    Lx, Ly = size
    if cls == 'Color488Code':
        xs = (-1, 0, 1, 3, 4, 8 * Lx - 1, 8 * Lx, 8 * Lx + 1, 8 * Lx + 4)
        ys = (-1, 0, 1, 3, 4, 8 * Ly - 1, 8 * Ly, 8 * Ly + 1, 8 * Ly + 4)
    elif cls == 'Color666ToricCode':
        xs = (-2, -1, 0, 1, 2, 5, 9 * Lx - 1, 9 * Lx, 9 * Lx + 1)
        ys = (-2, -1, 0, 2, 4, 12 * Ly - 2, 12 * Ly, 12 * Ly + 2, 12 * Ly + 6 * Lx)
    else:
        xs = (-2, -1, 0, 1, 2, 3, 6 * Lx - 1, 6 * Lx, 6 * Lx + 1, 6 * Lx + 2, 12 * Lx + 3, 12 * Lx + 4)
        ys = (-2, -1, 0, 1, 2, 4, 6 * Lx, 6 * Lx + 2, 6 * Lx + 4)
    return sorted(set(itertools.product(xs, ys)))


def malformed_locations(ss, extra):
    """locations of the wrong shape, wrong last component, or off the stabilizer lattice"""
    out = []
    for (x, y, p) in ss[:6] + ss[-4:]:
        out += [(x, y), (x, y, 2), (x, y, -1), (x + 1, y, p), (x, y + 1, p), (x, y, p, 0)]
    out += [(x, y, p) for (x, y) in extra[::5] for p in (0, 1)]
    out += [(), (0,)]
    seen, res = set(), []
    for l in out:
        if l not in seen:
            seen.add(l)
            res.append(l)
    return res


def unsupported_sizes(cls):
    """documented (L_x x L_y) but outside the supported family (known finding D14): the model
    transcribes the code there too"""
    if cls == 'Color666ToricCode':
        return [(1, 2), (2, 1), (2, 3), (3, 2), (1, 3)]
    return []


def lattice_streams(ctx, cls, salt):
    out = []
    for fam, sizes in (('supported', sizes_for(ctx, cls, salt)), ('outside-family', unsupported_sizes(cls))):
        if sizes:
            out.append(one_stream(ctx, cls, fam, sizes))
    out.append(rank_stream(ctx, cls, sizes_for(ctx, cls, salt)))
    return out


RANK_THEOREM = {'Color488Code': 'rank_family: X and Z generator of every face of one period but the octagons (0,4), (4,0)',
                'Color666ToricCode': 'rank_family: X and Z generator of every face but (2,2), (5,4)',
                'Color666PlanarCode': 'generators_independent: every stabilizer location'}


def rank_stream(ctx, cls, sizes):
    """`lat-<Class>-rank-family`: the explicit family of n - k stabilizer locations the all-sizes rank
    theorem of the class speaks about (printed by the model driver, op `rankfamily`) evaluated on the
    IMPLEMENTATION's parity-check matrix: all members distinct stabilizer locations, n - k of them,
    GF(2) rank of the selected rows n - k (family sizes only; the seam copies of Color488Code /
    Color666ToricCode are locations of the implementation too and are not in the family)"""
    import panqec.codes as C
    from harness.lat_cubic3d import rank_post
    klass = getattr(C, cls)
    s = Stream(f'lat-{cls}-rank-family', post=rank_post(klass))
    for size in sizes:
        if not K.supported(cls, tuple(size)):
            continue
        label = f'{cls}{tuple(size)}'
        try:
            code = klass(*size)
            nk = guarded(lambda: code.n - code.k)
        except Exception:  # noqa  (a construction failure is reported by the lattice-model stream)
            continue
        s.add(f'lat {cls} {size[0]} {size[1]} rankfamily', f'members {nk} rank {nk}',
              {'code': label, 'what': f'independent family of n-k generators (theorem {RANK_THEOREM[cls]}) '
               'evaluated on stabilizer_matrix'}, tag='size>5' if max(size) > 5 else 'size<=5')
    return s.run()


def one_stream(ctx, cls, fam, sizes):
    import panqec.codes as C
    klass = getattr(C, cls)
    s = Stream(f'lattice-model-{cls}-{fam}')
    for size in sizes:
        pre = f'lat {cls} {size[0]} {size[1]}'
        label = f'{cls}{tuple(size)}'
        big = max(size) > 5
        tag = 'size>5' if big else 'size<=5'
        try:
            code = klass(*size)
            qs = list(code.qubit_coordinates)
            ss = list(code.stabilizer_coordinates)
        except Exception as e:  # noqa
            s.add(f'{pre} qubits', f'EXC:{type(e).__name__}', {'code': label}, tag='construct-fail')
            continue
        def hmat():
            return stack(K.dense(code.stabilizer_matrix)) if code.n_stabilizers else '_'
        if big:
            # one op: the model computes its derived qubit list once
            s.add(f'{pre} bundle', guarded(lambda: ' # '.join([
                coords_str(qs), coords_str(ss), str(code.n), str(code.k), ops_str(code.get_logicals_x()),
                ops_str(code.get_logicals_z()), hmat(), stack(K.dense(code.logicals_x)),
                stack(K.dense(code.logicals_z))])), {'code': label, 'what': 'all getters and matrices'}, tag=tag)
        else:
            s.add(f'{pre} qubits', guarded(lambda: coords_str(qs)), {'code': label, 'what': 'qubit_coordinates'}, tag=tag)
            s.add(f'{pre} stabs', guarded(lambda: coords_str(ss)), {'code': label, 'what': 'stabilizer_coordinates'}, tag=tag)
            s.add(f'{pre} n', guarded(lambda: str(code.n)), {'code': label, 'what': 'n'}, tag=tag)
            if fam == 'supported':
                s.add(f'{pre} k', guarded(lambda: str(code.k)), {'code': label, 'what': 'k'}, tag=tag)
            s.add(f'{pre} logx', guarded(lambda: ops_str(code.get_logicals_x())), {'code': label, 'what': 'get_logicals_x'}, tag=tag)
            s.add(f'{pre} logz', guarded(lambda: ops_str(code.get_logicals_z())), {'code': label, 'what': 'get_logicals_z'}, tag=tag)
            # end to end: the matrices of the implementation against the generic code model applied
            # to the lattice model (the objects the all-sizes theorem `valid_code` speaks about)
            s.add(f'{pre} hmat', guarded(hmat), {'code': label, 'what': 'stabilizer_matrix'}, tag='matrix')
            if fam == 'supported':
                # outside the family the logical operators of Color666ToricCode touch non-qubits:
                # `logicals_x` raises KeyError on first access and serves a stale all-zero cache
                # afterwards (object state, not lattice definition) - the getters are compared instead
                s.add(f'{pre} lxmat', guarded(lambda: stack(K.dense(code.logicals_x))),
                      {'code': label, 'what': 'logicals_x'}, tag='matrix')
                s.add(f'{pre} lzmat', guarded(lambda: stack(K.dense(code.logicals_z))),
                      {'code': label, 'what': 'logicals_z'}, tag='matrix')
        extra = extra_locations(cls, size) if not big else []
        bad = malformed_locations(ss, extra) if not big else malformed_locations(ss, [])[:12]
        for loc in ss + bad:
            s.add(f'{pre} stab {cstr(loc) or "_"}', guarded(lambda: op_str(code.get_stabilizer(loc))),
                  {'code': label, 'what': 'get_stabilizer', 'location': list(loc)},
                  nontrivial=loc in ss, tag='stab' if loc in ss else 'stab-off-lattice')
            s.add(f'{pre} type {cstr(loc) or "_"}', guarded(lambda: str(code.stabilizer_type(loc))),
                  {'code': label, 'what': 'stabilizer_type', 'location': list(loc)}, nontrivial=loc in ss,
                  tag='type' if loc in ss else 'type-off-lattice')
        for loc in qs + extra + ss[:2]:
            s.add(f'{pre} axis {cstr(loc)}', guarded(lambda: str(code.qubit_axis(loc))),
                  {'code': label, 'what': 'qubit_axis', 'location': list(loc)}, nontrivial=False)
            for name, kw in itertools.product(NAMES, KWARGS):
                if kw and (big or name not in klass.deformation_names) and loc not in qs[:3]:
                    continue   # keyword arguments are ignored: probed on a subset only
                s.add(f'{pre} deform {name} {cstr(loc)}', deform_answer(code, loc, name, kw),
                      {'code': label, 'what': 'get_deformation', 'location': list(loc), 'name': name,
                       'kwargs': kw}, nontrivial=(name in klass.deformation_names and loc in qs),
                      tag='deform')
    return s.run()
