"""Correspondence streams shared by the hand-written 2-D surface-code lattice models
(harness/lattices/toric2dcode.py, planar2dcode.py, rotatedplanar2dcode.py): the model driver's
`lat <Class> <Lx> <Ly> ...` ops against the live class, in index / dict-insertion order."""
from __future__ import annotations

import itertools

from harness import codes as K
from harness.core import Stream
from harness.util import guarded, stack
from harness.props.c02 import cstr, coords_str, op_str, ops_str

NAMES = ['XZZX', 'XY', 'XZZY']          # last one: not a deformation -> ValueError
AXES = ['x', 'y', 'z', '-']             # 'z': not an axis of a 2-D code; '-': keyword omitted


def sizes_for(ctx, cls, salt):
    """every supported size with L <= 5 (rectangular included) + random larger ones"""
    rng = ctx.np_rng(salt)
    small_max = 7 if ctx.thorough else 5
    sizes = K.all_sizes(cls, small_max)
    big_max = 20 if ctx.thorough else 12
    n_big = 12 if ctx.thorough else 3
    seen = set(sizes)
    tries = 0
    while n_big and tries < 200:
        tries += 1
        s = tuple(int(v) for v in rng.integers(1, big_max + 1, 2))
        if max(s) <= small_max or s in seen or not K.supported(cls, s):
            continue
        seen.add(s)
        sizes.append(s)
        n_big -= 1
    return sizes


def unsupported_sizes(cls):
    """sizes outside the family on which the class still constructs: the model transcribes the
    code there too (dict overwrite when the two neighbours of a site coincide)"""
    if cls == 'Toric2DCode':
        return [(1, 1), (1, 2), (2, 1), (1, 3), (3, 1)]
    return []


def deform_answer(code, loc, name, axis):
    def f():
        if axis == '-':
            d = code.get_deformation(loc, name)
        else:
            d = code.get_deformation(loc, name, deformation_axis=axis)
        return d['X'] + d['Y'] + d['Z']
    return guarded(f)


def extra_locations(code, size):
    """locations that are neither qubits nor stabilizers, or just outside the lattice"""
    Lx, Ly = size
    pts = set()
    for x in (-2, -1, 0, 1, 2, 2 * Lx - 1, 2 * Lx, 2 * Lx + 1):
        for y in (-2, -1, 0, 1, 2, 2 * Ly - 1, 2 * Ly, 2 * Ly + 1):
            pts.add((x, y))
    return sorted(pts)


def lattice_streams(ctx, cls, salt):
    import panqec.codes as C
    klass = getattr(C, cls)
    out = []
    for fam, sizes in (('supported', sizes_for(ctx, cls, salt)), ('outside-family', unsupported_sizes(cls))):
        if not sizes:
            continue
        s = Stream(f'lattice-model-{cls}-{fam}')
        for size in sizes:
            pre = f'lat {cls} {size[0]} {size[1]}'
            label = f'{cls}{tuple(size)}'
            big = max(size) > 5
            tag = 'size>5' if big else 'size<=5'
            try:
                code = klass(*size)
                qs = list(code.qubit_coordinates)
                ss = list(code.stabilizer_coordinates)
            except Exception as e:  # noqa
                s.add(f'{pre} qubits', f'EXC:{type(e).__name__}', {'code': label}, tag='construct-fail')
                continue
            s.add(f'{pre} qubits', guarded(lambda: coords_str(qs)), {'code': label, 'what': 'qubit_coordinates'}, tag=tag)
            s.add(f'{pre} stabs', guarded(lambda: coords_str(ss)), {'code': label, 'what': 'stabilizer_coordinates'}, tag=tag)
            s.add(f'{pre} n', guarded(lambda: str(code.n)), {'code': label, 'what': 'n'}, tag=tag)
            s.add(f'{pre} k', guarded(lambda: str(code.k)), {'code': label, 'what': 'k'}, tag=tag)
            s.add(f'{pre} logx', guarded(lambda: ops_str(code.get_logicals_x())), {'code': label, 'what': 'get_logicals_x'}, tag=tag)
            s.add(f'{pre} logz', guarded(lambda: ops_str(code.get_logicals_z())), {'code': label, 'what': 'get_logicals_z'}, tag=tag)
            # end to end: the matrices of the implementation against the generic code model applied
            # to the lattice model (the objects the all-sizes theorem `valid_code` speaks about)
            s.add(f'{pre} hmat', guarded(lambda: stack(K.dense(code.stabilizer_matrix)) if code.n_stabilizers else '_'),
                  {'code': label, 'what': 'stabilizer_matrix'}, tag='matrix')
            s.add(f'{pre} lxmat', guarded(lambda: stack(K.dense(code.logicals_x))),
                  {'code': label, 'what': 'logicals_x'}, tag='matrix')
            s.add(f'{pre} lzmat', guarded(lambda: stack(K.dense(code.logicals_z))),
                  {'code': label, 'what': 'logicals_z'}, tag='matrix')
            extra = extra_locations(code, size) if not big else []
            for loc in ss + extra:
                s.add(f'{pre} stab {cstr(loc)}', guarded(lambda: op_str(code.get_stabilizer(loc))),
                      {'code': label, 'what': 'get_stabilizer', 'location': list(loc)},
                      nontrivial=loc in ss, tag='stab' if loc in ss else 'stab-off-lattice')
                s.add(f'{pre} type {cstr(loc)}', guarded(lambda: str(code.stabilizer_type(loc))),
                      {'code': label, 'what': 'stabilizer_type', 'location': list(loc)}, nontrivial=False)
            for loc in qs + extra:
                s.add(f'{pre} axis {cstr(loc)}', guarded(lambda: str(code.qubit_axis(loc))),
                      {'code': label, 'what': 'qubit_axis', 'location': list(loc)}, nontrivial=False)
                for name, axis in itertools.product(NAMES, AXES):
                    s.add(f'{pre} deform {name} {axis} {cstr(loc)}', deform_answer(code, loc, name, axis),
                          {'code': label, 'what': 'get_deformation', 'location': list(loc), 'name': name,
                           'axis': axis}, nontrivial=(name == 'XZZX' and axis in 'xy' and loc in qs),
                          tag='deform')
        out.append(s.run())
    out.append(rank_stream(ctx, cls, klass, sizes_for(ctx, cls, salt)))
    return out


RANK_THEOREM = {'Toric2DCode': 'generators_independent: all locations but the vertex (0,0) and the face (1,1)',
                'Planar2DCode': 'generators_independent: every stabilizer location',
                'RotatedPlanar2DCode': 'generators_independent: every stabilizer location'}


def rank_stream(ctx, cls, klass, sizes):
    """`lat-<Class>-rank-family`: the explicit family of n - k stabilizer locations the all-sizes rank
    theorem of the class speaks about (printed by the model driver, op `rankfamily`) evaluated on the
    IMPLEMENTATION's parity-check matrix: all members distinct stabilizer locations, n - k of them,
    GF(2) rank of the selected rows n - k (family sizes only)"""
    from harness.lat_cubic3d import rank_post
    s = Stream(f'lat-{cls}-rank-family', post=rank_post(klass))
    for size in sizes:
        label = f'{cls}{tuple(size)}'
        try:
            code = klass(*size)
            nk = guarded(lambda: code.n - code.k)
        except Exception:  # noqa  (a construction failure is reported by the lattice-model stream)
            continue
        s.add(f'lat {cls} {size[0]} {size[1]} rankfamily', f'members {nk} rank {nk}',
              {'code': label, 'what': f'independent family of n-k generators (theorem {RANK_THEOREM.get(cls, "rank_family")}) '
               'evaluated on stabilizer_matrix'}, tag='size>5' if max(size) > 5 else 'size<=5')
    return s.run()
