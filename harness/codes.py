"""Enumeration of panqec's code classes, supported lattice families (DESIGN.md section 4),
deformations, and helpers to extract matrices as plain Python lists."""
from __future__ import annotations

import itertools
from functools import lru_cache
from typing import Dict, Iterable, List, Optional, Tuple

CLASSES_2D = ['Toric2DCode', 'Planar2DCode', 'RotatedPlanar2DCode',
              'Color666PlanarCode', 'Color666ToricCode', 'Color488Code']
CLASSES_3D = ['Toric3DCode', 'Planar3DCode', 'RotatedPlanar3DCode', 'RotatedToric3DCode',
              'RhombicToricCode', 'RhombicPlanarCode', 'XCubeCode', 'HollowPlanar3DCode',
              'HollowRhombicCode', 'Color3DCode']
CLASSES = CLASSES_2D + CLASSES_3D


def dimension(cls: str) -> int:
    return 2 if cls in CLASSES_2D else 3


def supported(cls: str, size: Tuple[int, ...]) -> bool:
    """The supported lattice family of each class (DESIGN.md section 4)."""
    L = size
    if cls in ('Toric2DCode', 'Toric3DCode', 'XCubeCode'):
        return all(l >= 2 for l in L)
    if cls in ('Planar2DCode', 'RotatedPlanar2DCode', 'Planar3DCode', 'RotatedPlanar3DCode',
               'HollowPlanar3DCode', 'Color666PlanarCode'):
        return all(l >= 1 for l in L)
    if cls == 'RotatedToric3DCode':
        return L[0] >= 2 and L[1] >= 2 and L[2] >= 1 and not (L[0] % 2 == 1 and L[1] % 2 == 1)
    if cls == 'RhombicToricCode':
        return all(l >= 2 and l % 2 == 0 for l in L)
    if cls == 'RhombicPlanarCode':
        return L[0] >= 2 and L[1] >= 2 and L[2] >= 1
    if cls == 'HollowRhombicCode':
        return L[0] >= 2 and L[1] >= 2 and L[2] >= 3
    if cls == 'Color3DCode':
        return all(l >= 2 and l % 2 == 0 for l in L)
    if cls == 'Color488Code':
        # L_x x L_y as documented (rectangular sizes since the repair of the logical operators, D14)
        return all(l >= 1 for l in L)
    if cls == 'Color666ToricCode':
        # documented as L_x x L_y; only square sizes build a valid code (finding D14)
        return all(l >= 1 for l in L) and L[0] == L[1]
    raise KeyError(cls)


def documented(cls: str, size: Tuple[int, ...]) -> bool:
    """What the class documents as accepted (used to look for findings outside `supported`)."""
    if cls == 'Color666ToricCode':
        return all(l >= 1 for l in size)
    return supported(cls, size)


def all_sizes(cls: str, max_l: int, n_max: Optional[int] = None, min_l: int = 1,
              pred=supported) -> List[Tuple[int, ...]]:
    dim = dimension(cls)
    out = []
    for L in itertools.product(range(min_l, max_l + 1), repeat=dim):
        if cls == 'Color666PlanarCode' and L[1] != L[0]:
            continue  # L_y is ignored by construction
        if pred(cls, L):
            out.append(L)
    if n_max is not None:
        out = [L for L in out if qubit_count(cls, L) <= n_max]
    return out


@lru_cache(maxsize=None)
def qubit_count(cls: str, size: Tuple[int, ...]) -> int:
    return build(cls, size).n


def deformations(cls: str) -> List[Tuple[Optional[str], Dict]]:
    """(name, kwargs) for every deformation the class offers, every axis; first = undeformed."""
    import panqec.codes as C
    import inspect
    klass = getattr(C, cls)
    out: List[Tuple[Optional[str], Dict]] = [(None, {})]
    for name in klass.deformation_names:
        sig = inspect.signature(klass.get_deformation)
        if 'deformation_axis' in sig.parameters:
            axes = ['x', 'y'] if klass.dimension == 2 else ['x', 'y', 'z']
            if name == 'XY':
                out.append((name, {}))
            else:
                for ax in axes:
                    out.append((name, {'deformation_axis': ax}))
        else:
            out.append((name, {}))
    return out


def warm(code):
    """touch every lazily cached attribute of a code object (what a user may have looked at
    before calling deform on the same object)"""
    code.n, code.k, code.d
    code.stabilizer_matrix, code.logicals_x, code.logicals_z
    code.x_indices, code.z_indices
    if code.is_css:
        code.Hx, code.Hz
    code.qubit_index, code.stabilizer_index
    if code.n_stabilizers:
        import numpy as np
        code.measure_syndrome(np.zeros(2 * code.n, dtype='uint8'))
    return code


def build(cls: str, size: Tuple[int, ...], deform: Optional[Tuple[str, Dict]] = None, reuse: bool = False):
    """reuse=True: the object is fully used (all caches filled), deformed with another offered
    deformation first when there is one, used again, and only then deformed as requested"""
    import panqec.codes as C
    code = getattr(C, cls)(*size)
    if deform is not None and deform[0] is not None:
        if reuse:
            warm(code)
            others = [d for d in deformations(cls)[1:] if d != (deform[0], deform[1])]
            if others:
                code.deform(others[0][0], **others[0][1])
                warm(code)
        code.deform(deform[0], **deform[1])
    return code


def dense(m) -> List[List[int]]:
    import numpy as np
    if hasattr(m, 'toarray'):
        m = m.toarray()
    return [[int(x) for x in row] for row in np.asarray(m)]


def pack(row: Iterable[int]) -> int:
    """little-endian packing (entry j = bit j), as Model/Mask.lean packBits"""
    v = 0
    for j, b in enumerate(row):
        if b % 2:
            v |= (1 << j)
    return v


def deform_tag(deform) -> str:
    if deform is None or deform[0] is None:
        return 'none'
    name, kw = deform
    return name.replace(' ', '_') + ('' if not kw else '@' + ','.join(f'{k}={v}' for k, v in sorted(kw.items())))
