"""Correspondence streams shared by the hand-written lattice models of RhombicPlanarCode and
RhombicToricCode (harness/lattices/rhombic*.py): every getter of the class, in index order / dict
insertion order, against the model driver (`lat <Class> <Lx> <Ly> <Lz> <query>`).

`get_deformation(location, name, **kwargs)` of these classes ignores its keyword arguments; the
driver op is `deform <location> <name...>` (the name may contain single spaces) and the
implementation is called without and with `deformation_axis=...`."""
from __future__ import annotations

import itertools

from harness.core import Stream
from harness.props.c02 import cstr, coords_str, op_str, ops_str
from harness.util import guarded

EXC = {'ValueError': 'ERR value'}
KWARGS = [None, 'x', 'z', 'w']
NAMES = ['Checkerboard XZZX', 'XZZX', 'XY', 'checkerboard xzzx', 'Checkerboard', 'Checkerboard XZZX 2', '']


def _deform_str(d):
    return ''.join(d[p] for p in 'XYZ')


def size_plan(ctx, supported, family_box, outside, larger_box, salt):
    """[(size, tag)]: every supported size of `family_box`, sizes outside the family (the model
    transcribes the code for every size), and a few random larger supported sizes"""
    rng = ctx.np_rng(salt)
    lo, hi = family_box
    plan = [(L, 'family') for L in itertools.product(range(lo, hi + 1), repeat=3) if supported(L)]
    plan += [(tuple(L), 'outside-family') for L in outside]
    seen = {s for s, _ in plan}
    n_big = 6 if ctx.thorough else 2
    top = larger_box + (2 if ctx.thorough else 0)
    tries = 0
    while n_big and tries < 400:
        tries += 1
        L = tuple(int(v) for v in rng.integers(1, top + 1, 3))
        if L in seen or not supported(L):
            continue
        seen.add(L)
        plan.append((L, 'family-larger'))
        n_big -= 1
    return plan


def probe_locations(code, rng, k=10):
    """locations that need not be qubits or stabilizers: outside the box, negative, wrong length"""
    Lx, Ly, Lz = code.size
    locs = [(0, 0, 0), (1, 1, 0), (1, 1, 1), (-1, 0, 0), (0, -1, 0), (0, 0, -1), (1, -1, 1), (1, -1, -1),
            (2 * Lx, 0, 0), (0, 2 * Ly, 0), (0, 0, 2 * Lz), (2 * Lx + 1, 0, 0), (1, 2 * Ly - 1, 2 * Lz - 1),
            (2 * Lx - 1, 2 * Ly - 1, 2 * Lz - 1), (1, 2 * Ly - 1, 1), (3, 1, 1), (1, 1, 3), (0, 1, 1),
            (4, 0, 0, 0), (0, 2, 0, 0), (1, 2, 0, 0), (2, 2, 2 * Ly - 2, 0), (3, 2, 2 * Ly - 2, 2 * Lz - 2),
            (-1, 2, 0, 0), (0, 0, 0, 0), (3, 2 * Lx, 0, 0), (0, 2, 1, 0), (1, 0), (0,), (0, 2, 0, 0, 0)]
    for _ in range(k):
        locs.append(tuple(int(v) for v in rng.integers(-3, 2 * max(code.size) + 4, 3)))
        locs.append((int(rng.integers(-1, 5)),) + tuple(int(v) for v in rng.integers(-2, 2 * max(code.size) + 3, 3)))
    return locs


def class_streams(ctx, cls, supported, family_box, outside, larger_box, salt, rank_family=False):
    import panqec.codes as C
    from harness.lat_cubic3d import rank_post
    klass = getattr(C, cls)
    rng = ctx.np_rng(salt + 1)
    coords = Stream(f'lat-{cls}-coordinates-logicals')
    stab = Stream(f'lat-{cls}-get_stabilizer')
    axis = Stream(f'lat-{cls}-axis-type')
    deform = Stream(f'lat-{cls}-get_deformation')
    errs = Stream(f'lat-{cls}-malformed-probes')
    rank = Stream(f'lat-{cls}-rank-family', post=rank_post(klass))
    assert list(klass.deformation_names) == ['Checkerboard XZZX'], klass.deformation_names
    for size, tag in size_plan(ctx, supported, family_box, outside, larger_box, salt):
        pre = f'lat {cls} ' + ' '.join(map(str, size)) + ' '
        desc = {'class': cls, 'size': list(size)}
        try:
            code = klass(*size)
            qs = list(code.qubit_coordinates)
            ss = list(code.stabilizer_coordinates)
        except Exception as e:  # noqa: BLE001
            coords.add(pre + 'qubits', f'EXC:{type(e).__name__}', desc, tag='construct-fail')
            continue
        coords.add(pre + 'qubits', guarded(lambda: coords_str(code.qubit_coordinates)), dict(desc, what='qubit_coordinates'), tag=tag)
        coords.add(pre + 'stabs', guarded(lambda: coords_str(code.stabilizer_coordinates)), dict(desc, what='stabilizer_coordinates'), tag=tag)
        coords.add(pre + 'logx', guarded(lambda: ops_str(code.get_logicals_x())), dict(desc, what='get_logicals_x'), tag=tag)
        coords.add(pre + 'logz', guarded(lambda: ops_str(code.get_logicals_z())), dict(desc, what='get_logicals_z'), tag=tag)
        coords.add(pre + 'n', guarded(lambda: str(int(code.n))), dict(desc, what='n'), nontrivial=False)
        coords.add(pre + 'k', guarded(lambda: str(int(code.k))), dict(desc, what='k'), nontrivial=False)
        if rank_family and supported(size):
            nk = guarded(lambda: code.n - code.k)
            rank.add(pre + 'rankfamily', f'members {nk} rank {nk}',
                     dict(desc, what='independent family of n-k generators (theorem generators_independent) '
                          'evaluated on stabilizer_matrix'), tag=tag)
        for loc in ss:
            d = dict(desc, location=list(map(int, loc)))
            stab.add(pre + 'stab ' + cstr(loc), guarded(lambda: op_str(code.get_stabilizer(loc)), EXC), d, tag=tag)
            axis.add(pre + 'type ' + cstr(loc), guarded(lambda: str(code.stabilizer_type(loc)), EXC), d,
                     nontrivial=False, tag='type')
        big = len(qs) > 150
        for qi, loc in enumerate(qs):
            d = dict(desc, location=list(map(int, loc)))
            axis.add(pre + 'axis ' + cstr(loc), guarded(lambda: str(code.qubit_axis(loc)), EXC), d,
                     nontrivial=False, tag='axis')
            for nm, kw in itertools.product(NAMES, KWARGS):
                real = nm in klass.deformation_names
                if (not real or kw == 'w') and (qi % (11 if big else 3)):
                    continue

                def call():
                    if kw is None:
                        return _deform_str(code.get_deformation(loc, nm))
                    return _deform_str(code.get_deformation(loc, nm, deformation_axis=kw))
                deform.add(pre + 'deform ' + cstr(loc) + (' ' + nm if nm else ''), guarded(call, EXC),
                           dict(d, name=nm, deformation_axis=kw), nontrivial=real, tag=f'{nm}/{kw}')
        # malformed probes: every getter on locations of the wrong kind / outside the lattice
        probes = probe_locations(code, rng)
        for loc in qs[:3] + qs[-2:] + probes:
            d = dict(desc, location=list(map(int, loc)))
            errs.add(pre + 'stab ' + cstr(loc), guarded(lambda: op_str(code.get_stabilizer(loc)), EXC), d,
                     nontrivial=False, tag='stab-probe')
            errs.add(pre + 'type ' + cstr(loc), guarded(lambda: str(code.stabilizer_type(loc)), EXC), d,
                     nontrivial=False, tag='type-probe')
        for loc in ss[:3] + ss[-3:] + probes:
            if len(loc) == 0:
                continue
            d = dict(desc, location=list(map(int, loc)))
            errs.add(pre + 'axis ' + cstr(loc), guarded(lambda: str(code.qubit_axis(loc)), EXC), d,
                     nontrivial=False, tag='axis-probe')
            for nm in ('Checkerboard XZZX', 'XZZX'):
                errs.add(pre + 'deform ' + cstr(loc) + ' ' + nm,
                         guarded(lambda: _deform_str(code.get_deformation(loc, nm)), EXC), dict(d, name=nm),
                         nontrivial=False, tag='deform-probe')
    return [s.run() for s in (coords, stab, axis, deform, errs) + ((rank,) if rank_family else ())]
