"""Entry point: ./check <id> [--tier quick|thorough] [--replay path]"""
from __future__ import annotations

import argparse
import importlib
import json
import os
import random
import re
import sys
import time
import traceback
from pathlib import Path

sys.path.insert(0, str(Path(__file__).resolve().parent.parent))

from harness import core  # noqa: E402
from harness.core import Ctx, ToolFailure  # noqa: E402


def summarise_build_errors(log: str, limit=12):
    errs = [ln for ln in log.splitlines() if re.search(r'error', ln)]
    return errs[:limit]


def decide(prop: str, tier: str, seed: int) -> int:
    t0 = time.time()
    mod = importlib.import_module(f'harness.props.{prop.lower()}')
    ctx = Ctx(prop=prop, tier=tier, seed=seed, rng=random.Random(seed * 7919 + 13), t0=t0)
    broken = []          # obligations / streams that no longer check
    level = getattr(mod, 'LEVEL', 'proof')

    # 0. source fingerprint of the files the property is anchored in: when it differs from the one
    #    recorded at the last green state (fingerprints.json, committed), the correspondence and the
    #    oracle run at the thorough depth even in the quick tier
    fp = core.property_fingerprint(prop)
    recorded = core.recorded_fingerprints().get(prop)
    ctx.escalate = (recorded is not None and recorded != fp)
    ctx.changed_files = core.changed_files()
    if ctx.changed_files:
        ctx.notes.append('source files changed since the recorded green state: ' + ', '.join(ctx.changed_files[:12]))
    if ctx.escalate:
        ctx.notes.append(f'anchored sources changed since the recorded green state ({recorded} -> {fp}): '
                         'escalated to the thorough input set')

    # 1. regenerate source-derived tables
    regen_info = {}
    if hasattr(mod, 'regen'):
        try:
            regen_info = mod.regen(ctx) or {}
        except ToolFailure:
            raise
        except Exception as e:  # the source no longer has the shape the translator reads
            broken.append({'kind': 'regen', 'name': 'regen',
                           'detail': f'{type(e).__name__}: {e}'})

    # 2. build the property module(s)
    prop_module = f'PanqecVerif.Properties.{prop}'
    prop_modules = list(getattr(mod, 'PROPERTY_MODULES', [prop_module]))
    prop_files = [core.LEAN_DIR / (m.replace('.', '/') + '.lean') for m in prop_modules]
    if os.environ.get('VERIF_DEV_NOLEAN'):   # development only: skip the proof side
        ok, log = core.lake_build(['panqec_model'])
        prop_files = []
    else:
        ok, log = core.lake_build(prop_modules + ['panqec_model'])
    names = []
    for pf in prop_files:
        if pf.exists():
            names += core.theorem_names(pf)
    discharged = 0
    axioms_used = {}
    if not ok:
        broken.append({'kind': 'build', 'name': ' '.join(prop_modules),
                       'detail': summarise_build_errors(log)})
        if not core.DRIVER.exists():
            raise ToolFailure('driver not built:\n' + log[-2000:])
    else:
        # 3. audit
        ax = core.audit_axioms(prop_modules, names)
        if ax.get('_raw_rc', 0) != 0:
            broken.append({'kind': 'audit', 'name': prop_module, 'detail': ax.get('_raw', '')[-1500:]})
        for n in names:
            if n not in ax:
                broken.append({'kind': 'audit', 'name': n, 'detail': 'no #print axioms output'})
                continue
            extra = set(ax[n]) - core.ALLOWED_AXIOMS
            axioms_used[n] = ax[n]
            if extra:
                broken.append({'kind': 'audit', 'name': n, 'detail': f'axioms {sorted(extra)}'})
            else:
                discharged += 1
        srcs = core.lean_sources_of(prop_modules)
        hits = core.grep_forbidden(srcs)
        if hits:
            broken.append({'kind': 'audit', 'name': 'forbidden-constructs', 'detail': hits[:10]})
        if tier == 'thorough' and getattr(mod, 'LEANCHECKER', True):
            mods = [m for m in getattr(mod, 'LEANCHECKER_MODULES', prop_modules)]
            rc, out, err = core.run(['lake', 'env', 'leanchecker'] + mods, cwd=core.LEAN_DIR,
                                    timeout=3000)
            if rc != 0:
                broken.append({'kind': 'audit', 'name': 'leanchecker', 'detail': (out + err)[-1500:]})
            else:
                ctx.notes.append('leanchecker ok: ' + ' '.join(mods))

    # 4. correspondence
    streams = []
    try:
        streams = mod.correspondence(ctx)
    except ToolFailure:
        raise
    except Exception as e:
        broken.append({'kind': 'correspondence', 'name': 'harness-exception',
                       'detail': traceback.format_exc()[-3000:]})
    n_eval = sum(s.n for s in streams)
    n_distinct = sum(s.distinct_nontrivial() for s in streams)
    hist = {}
    for s in streams:
        hist[s.name] = {'cases': s.n, 'nontrivial_distinct': s.distinct_nontrivial(), **s.hist}
        if s.mismatches:
            broken.append({'kind': 'correspondence', 'name': s.name,
                           'detail': s.mismatches[:3], 'count': len(s.mismatches)})

    # 5. property oracle on the implementation (deeper when something is broken)
    failures = []
    oracle_info = {}
    try:
        res = mod.oracle(ctx, deep=bool(broken) or tier == 'thorough' or ctx.escalate, broken=broken)
        failures, oracle_info = res if isinstance(res, tuple) else (res, {})
    except ToolFailure:
        raise
    except Exception:
        broken.append({'kind': 'oracle', 'name': 'oracle-exception',
                       'detail': traceback.format_exc()[-3000:]})

    # 6. decision
    known = core.load_known_findings()
    violations = []
    known_hit = {}
    for f in failures:
        hit = None
        for i, e in enumerate(known):
            if core.finding_matches(e, prop, f):
                hit = i
                break
        if hit is None:
            violations.append(f)
        else:
            known_hit.setdefault(hit, f)
    for i, f in known_hit.items():
        print(f'KNOWN-FINDING: property={prop} {known[i]["what"]}')
    rc = 0
    seen = set()
    for f in violations:
        key = core.canonical(f.get('match', f))
        if key in seen:
            continue
        seen.add(key)
        if len(seen) > 5:
            break
        p = core.write_replay(prop, {'kind': 'failing-input', 'broken': [b['name'] for b in broken],
                                     **f})
        print(f'VIOLATION property={prop} replay={p}')
        rc = 1
    if broken and not violations:
        p = core.write_replay(prop, {'kind': 'no-failing-input-found',
                                     'broken': broken,
                                     'note': 'a proof obligation or a correspondence stream no longer '
                                             'checks; the failing-input search on the implementation '
                                             'found no input violating the property'})
        print(f'VIOLATION property={prop} replay={p} no-failing-input-found')
        rc = 1

    # 7. evidence
    samples = []
    for s in streams[:6]:
        if s.ops:
            samples.append({'stream': s.name, 'model_op': s.ops[0][:300], 'implementation': s.impl[0][:300]})
            if s.n > 1:
                j = s.n // 2
                samples.append({'stream': s.name, 'model_op': s.ops[j][:300], 'implementation': s.impl[j][:300]})
    samples.extend({'theorem': n, 'axioms': axioms_used.get(n)} for n in names[:40])
    cov = {
        'obligations': max(len(names), 1),
        'discharged': discharged,
        'checker_cmd': f'cd lean && lake build {" ".join(prop_modules)} && lake env lean <#print axioms of each theorem>'
                       + (' && lake env leanchecker' if tier == 'thorough' else ''),
        'trusted_base': core.GLOBAL_TRUSTED_BASE + list(getattr(mod, 'TRUSTED', [])),
        'theorems': names,
        'evaluations': max(n_eval + oracle_info.get('evaluations', 0), 0),
        'distinct_nontrivial': n_distinct,
        'rule': getattr(mod, 'RULE', 'correspondence cases: one model-driver op each, implementation '
                                     'answer compared as canonical text; distinct = distinct op lines '
                                     'flagged non-trivial by the generator'),
        'samples': samples,
        'correspondence_streams': hist,
        'oracle': oracle_info,
        'broken': broken,
        'regen': regen_info,
        'source_fingerprint': fp,
        'escalated': ctx.escalate,
        'notes': ctx.notes,
        'explanation': getattr(mod, 'EXPLANATION', ''),
        'exhaustive': False,
    }
    ev = {
        'property_id': prop, 'tier': tier, 'seed': seed, 'level': level,
        'coverage': cov,
        'assumptions': list(getattr(mod, 'ASSUMPTIONS', [])),
        'wall_s': round(time.time() - t0, 2),
        'violations': len(seen) + (1 if broken and not violations else 0),
    }
    core.write_evidence(prop, ev)
    status = 'ok' if rc == 0 else 'VIOLATION'
    print(f'[{prop}] {status}: theorems {discharged}/{len(names)} audited, '
          f'{n_eval} correspondence cases in {len(streams)} streams, '
          f'{oracle_info.get("evaluations", 0)} oracle cases, broken={len(broken)}, '
          f'{ev["wall_s"]}s')
    return rc


def replay(prop: str, path: str) -> int:
    mod = importlib.import_module(f'harness.props.{prop.lower()}')
    payload = json.loads(Path(path).read_text())
    ctx = Ctx(prop=prop, tier='quick', seed=0, rng=random.Random(0), t0=time.time())
    if payload.get('kind') == 'no-failing-input-found':
        print('replay names broken obligations only:', json.dumps(payload.get('broken'))[:2000])
        return 1
    still = mod.replay(ctx, payload)
    if still:
        print(f'VIOLATION property={prop} replay={path}')
        return 1
    print(f'[{prop}] replay no longer fails')
    return 0


def main(argv=None):
    ap = argparse.ArgumentParser()
    ap.add_argument('prop')
    ap.add_argument('--tier', default=os.environ.get('VERIF_TIER', 'quick'),
                    choices=['quick', 'thorough'])
    ap.add_argument('--replay')
    a = ap.parse_args(argv)
    seed = int(os.environ.get('VERIF_SEED', '0') or 0)
    try:
        if a.replay:
            return replay(a.prop, a.replay)
        return decide(a.prop, a.tier, seed)
    except ToolFailure as e:
        print(f'[{a.prop}] TOOL FAILURE: {e}', file=sys.stderr)
        return 2


if __name__ == '__main__':
    sys.exit(main())
