"""Correspondence streams shared by the hand-written lattice models of RotatedPlanar3DCode and
XCubeCode (harness/lattices/*.py): every getter of the class, in index order, against the model
driver (`lat <Class> <Lx> <Ly> <Lz> <query>`)."""
from __future__ import annotations

import itertools

from harness import codes as K
from harness.core import Stream
from harness.props.c02 import cstr, coords_str, op_str, ops_str
from harness.util import guarded
from harness.lat_cubic3d import rank_post

EXC = {'ValueError': 'ERR value'}
AXES = ['x', 'y', 'z']


def _deform_str(d):
    return ''.join(d[p] for p in 'XYZ')


def size_plan(ctx, cls, extra_sizes=()):
    """[(size, tag)]: every supported cuboid with L_i <= 3, a few random larger ones (<= 6),
    more in the thorough tier; `extra_sizes` are sizes outside the supported family on which the
    transcription is compared as well (dict-overwrite cases)."""
    rng = ctx.np_rng(3100 + sum(map(ord, cls)))
    small = K.all_sizes(cls, 3)
    plan = [(s, 'small') for s in small]
    plan += [(tuple(s), 'outside-family') for s in extra_sizes]
    hi = 6
    pool = [s for s in K.all_sizes(cls, hi) if s not in small]
    if ctx.thorough:
        mid = [s for s in K.all_sizes(cls, 4) if s not in small]
        plan += [(s, 'mid') for s in mid]
        pool = [s for s in pool if s not in mid]
        n_big = 12
        big_pool = [s for s in K.all_sizes(cls, 9) if s not in K.all_sizes(cls, hi)]
    else:
        n_big = 3
        big_pool = []
    if pool:
        for i in sorted(rng.choice(len(pool), min(len(pool), n_big), replace=False)):
            plan.append((pool[i], 'random-large'))
    if big_pool:
        for i in sorted(rng.choice(len(big_pool), 2, replace=False)):
            plan.append((big_pool[i], 'random-larger'))
    return plan


def class_streams(ctx, cls, bad_locations, extra_sizes=()):
    """`bad_locations(code)` -> locations that are neither qubits nor stabilizers (error paths)."""
    import panqec.codes as C
    klass = getattr(C, cls)
    names = list(klass.deformation_names) + ['XY', 'nope']
    out = []
    coords = Stream(f'lat-{cls}-coordinates-logicals')
    stab = Stream(f'lat-{cls}-get_stabilizer')
    axis = Stream(f'lat-{cls}-axis-type')
    deform = Stream(f'lat-{cls}-get_deformation')
    errs = Stream(f'lat-{cls}-error-paths')
    # the model's `selStabs` (theorem `generators_independent`) evaluated on the IMPLEMENTATION's
    # parity-check matrix: members n - k, all distinct stabilizer locations, GF(2) rank n - k
    rank = Stream(f'lat-{cls}-rank-family', post=rank_post(klass))
    for size, tag in size_plan(ctx, cls, extra_sizes):
        pre = f'lat {cls} ' + ' '.join(map(str, size)) + ' '
        desc = {'class': cls, 'size': list(size)}
        try:
            code = klass(*size)
            qs = list(code.qubit_coordinates)
            ss = list(code.stabilizer_coordinates)
        except Exception as e:  # noqa: BLE001
            coords.add(pre + 'qubits', f'EXC:{type(e).__name__}', desc, tag='construct-fail')
            continue
        coords.add(pre + 'qubits', guarded(lambda: coords_str(code.qubit_coordinates)), desc, tag=tag)
        coords.add(pre + 'stabs', guarded(lambda: coords_str(code.stabilizer_coordinates)), desc, tag=tag)
        coords.add(pre + 'logx', guarded(lambda: ops_str(code.get_logicals_x())), desc, tag=tag)
        coords.add(pre + 'logz', guarded(lambda: ops_str(code.get_logicals_z())), desc, tag=tag)
        coords.add(pre + 'n', guarded(lambda: str(int(code.n))), desc, nontrivial=False)
        coords.add(pre + 'k', guarded(lambda: str(int(code.k))), desc, nontrivial=False)
        if tag != 'outside-family':
            nk = guarded(lambda: code.n - code.k)
            rank.add(pre + 'rankfamily', f'members {nk} rank {nk}',
                     dict(desc, what='independent family of n-k generators (theorem generators_independent) '
                          'evaluated on stabilizer_matrix'), tag=tag)
        for loc in ss:
            d = dict(desc, location=list(map(int, loc)))
            stab.add(pre + 'stab ' + cstr(loc), guarded(lambda: op_str(code.get_stabilizer(loc)), EXC), d, tag=tag)
            axis.add(pre + 'type ' + cstr(loc), guarded(lambda: str(code.stabilizer_type(loc)), EXC), d,
                     nontrivial=False, tag='type')
        big = len(qs) > 150
        for qi, loc in enumerate(qs):
            d = dict(desc, location=list(map(int, loc)))
            axis.add(pre + 'axis ' + cstr(loc), guarded(lambda: str(code.qubit_axis(loc)), EXC), d,
                     nontrivial=False, tag='axis')
            for nm, ax in itertools.product(names, AXES + ['w']):
                if big and (nm not in klass.deformation_names or ax == 'w') and qi % 7:
                    continue
                deform.add(pre + f'deform {nm} {ax} ' + cstr(loc),
                           guarded(lambda: _deform_str(code.get_deformation(loc, nm, deformation_axis=ax)), EXC),
                           dict(d, name=nm, axis=ax), nontrivial=(nm in klass.deformation_names and ax != 'w'),
                           tag=f'{nm}/{ax}')
            # the keyword omitted: the default `deformation_axis` of the signature (driver axis `-`)
            for nm in names:
                if big and nm not in klass.deformation_names and qi % 7:
                    continue
                deform.add(pre + f'deform {nm} - ' + cstr(loc),
                           guarded(lambda: _deform_str(code.get_deformation(loc, nm)), EXC),
                           dict(d, name=nm, axis=None), nontrivial=(nm in klass.deformation_names),
                           tag=f'{nm}/default-axis')
        # error paths: getters on locations of the wrong kind
        bad = list(bad_locations(code))
        for loc in (qs[:3] + qs[-2:] + bad):
            d = dict(desc, location=list(map(int, loc)))
            errs.add(pre + 'stab ' + cstr(loc), guarded(lambda: op_str(code.get_stabilizer(loc)), EXC), d,
                     nontrivial=False, tag='stab-on-nonstab')
            errs.add(pre + 'type ' + cstr(loc), guarded(lambda: str(code.stabilizer_type(loc)), EXC), d,
                     nontrivial=False, tag='type-on-nonstab')
        for loc in (ss[:3] + ss[-3:] + bad):
            if len(loc) != 3:
                continue   # `x, y, z = location` fails to unpack: not a modelled input
            d = dict(desc, location=list(map(int, loc)))
            errs.add(pre + 'axis ' + cstr(loc), guarded(lambda: str(code.qubit_axis(loc)), EXC), d,
                     nontrivial=False, tag='axis-on-nonqubit')
            errs.add(pre + 'deform XZZX z ' + cstr(loc),
                     guarded(lambda: _deform_str(code.get_deformation(loc, 'XZZX', deformation_axis='z')), EXC), d,
                     nontrivial=False, tag='deform-on-nonqubit')
            errs.add(pre + 'deform XZZX - ' + cstr(loc),
                     guarded(lambda: _deform_str(code.get_deformation(loc, 'XZZX')), EXC), d,
                     nontrivial=False, tag='deform-default-axis-on-nonqubit')
    for s in (coords, stab, axis, deform, errs, rank):
        out.append(s.run())
    return out
