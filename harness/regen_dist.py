"""Certificate search for C17 (reported distance = true distance) and the translator that emits
the certificates as Lean data (lean/PanqecVerif/Generated/Dist<Class>.lean).

Nothing in here is trusted: the certificates are checked in Lean by the proved-sound checker
`checkDistance` (Model/Dist.lean, soundness: Proofs/Dist.lean).  Two kinds of lower-bound
certificates:

* packing: for every listed logical l, d representatives of the coset l + S (each given by a
  selection mask over the generators) with pairwise disjoint Pauli supports.  Search: lattice
  translates of the listed operator (wrapped modulo the coordinate range), kept when they are
  equivalent to l modulo the stabilizer group (GF(2) elimination, which also yields the selection
  mask), then a small depth-first search for d pairwise disjoint ones; when translates are not
  enough, representatives avoiding the qubits already used are solved for by linear algebra and
  lightened by a greedy descent over the generators.  The periodic 6.6.6 colour code (n = 18 L^2,
  d = 4 L) needs an exact packing: the 3L translates of the listed zig-zag string plus the L closed
  straight lines of the same colour that are left over (`symmetric_packing_cert`).
* exhaustive: no data; the Lean checker enumerates every Pauli of weight < d.  Chosen when the
  number of candidates is within the kernel budget.
* css: no data; for CSS codes the Lean checker enumerates the pure X-type and pure Z-type
  operators of weight < d only.

Deterministic; no caches.
"""
from __future__ import annotations

import itertools
from math import comb
from pathlib import Path
from typing import Dict, List, Optional, Sequence, Tuple

from harness import codes as K
from harness import regen_codes as R
from harness.core import LEAN_DIR

GEN_DIR = LEAN_DIR / 'PanqecVerif' / 'Generated'
INST_DIR = LEAN_DIR / 'PanqecVerif' / 'Instances'

# kernel budget for the exhaustive enumeration (number of Paulis of weight < d)
EXH_KERNEL_BUDGET = 30_000
# below this number of kernel steps the enumeration is preferred (no search needed)
EXH_PREFER = 1_500
# native budget (driver op `checkdistance`, thorough tier)
EXH_NATIVE_BUDGET = 30_000_000


# ------------------------------------------------------------------ GF(2) helpers

class Reducer:
    """Echelon form of the generators with combination tracking: `reduce(v)` returns
    (residual, sel) with v = residual xor (xor of generators selected by sel)."""

    def __init__(self, rows: Sequence[int]):
        self.piv: Dict[int, Tuple[int, int]] = {}
        for i, h in enumerate(rows):
            r, cm = self._red(h)
            cm ^= (1 << i)
            if r:
                self.piv[r.bit_length() - 1] = (r, cm)

    def _red(self, v: int) -> Tuple[int, int]:
        cm = 0
        piv = self.piv
        while v:
            hb = v.bit_length() - 1
            e = piv.get(hb)
            if e is None:
                return v, cm     # leading bit without pivot: not in the span
            v ^= e[0]
            cm ^= e[1]
        return 0, cm

    def reduce(self, v: int) -> Tuple[int, int]:
        return self._red(v)


def supp(n: int, v: int) -> int:
    return (v | (v >> n)) & ((1 << n) - 1)


def pweight(n: int, v: int) -> int:
    return bin(supp(n, v)).count('1')


def exhaustive_count(n: int, d: int) -> int:
    """number of Paulis of weight < d on n qubits"""
    return sum(3 ** j * comb(n, j) for j in range(0, d))


# ------------------------------------------------------------------ instance data

class Inst:
    def __init__(self, cls: str, size: Tuple[int, ...], code=None, deform=None):
        self.cls, self.size = cls, tuple(size)
        code = code if code is not None else K.build(cls, size, deform)
        self.code = code
        self.n = code.n
        self.H = [K.pack(r) for r in K.dense(code.stabilizer_matrix)] if code.n_stabilizers else []
        self.LX = [K.pack(r) for r in K.dense(code.logicals_x)]
        self.LZ = [K.pack(r) for r in K.dense(code.logicals_z)]
        self.k = len(self.LX)
        self.d = int(code.d)
        self.coords = [tuple(int(x) for x in c) for c in code.qubit_coordinates]
        self.name = 'i' + '_'.join(map(str, size))
        self.coord_index = {c: i for i, c in enumerate(self.coords)}
        self.ranges = _ranges(self) if self.coords else None


# ------------------------------------------------------------------ packing search

def _ranges(inst: Inst):
    dim = len(inst.coords[0])
    allc = list(inst.coords) + [tuple(int(x) for x in c[:dim]) for c in inst.code.stabilizer_coordinates]
    lo = [min(c[i] for c in allc) for i in range(dim)]
    hi = [max(c[i] for c in allc) for i in range(dim)]
    qlo = [min(c[i] for c in inst.coords) for i in range(dim)]
    qhi = [max(c[i] for c in inst.coords) for i in range(dim)]
    return dim, lo, hi, qlo, qhi


def translate_batches(inst: Inst, l: int):
    """lattice translates of the operator l (as packed BSF), wrapped modulo candidate periods;
    one batch per period combination (generator, most plausible periods first)"""
    n = inst.n
    idx = inst.coord_index
    dim, lo, hi, qlo, qhi = inst.ranges
    sup = [q for q in range(n) if (supp(n, l) >> q) & 1]
    if not sup:
        return
    letters = [((l >> q) & 1, (l >> (n + q)) & 1) for q in sup]
    sup_coords = [inst.coords[q] for q in sup]
    c0 = sup_coords[0]
    # candidate periods per axis: range of all coordinates, range of the qubit coordinates, 2*L
    periods = []
    for i in range(dim):
        ps = []
        for p in (hi[i] - lo[i] + 1, qhi[i] - qlo[i] + 1, 2 * inst.size[i] if i < len(inst.size) else 0,
                  hi[i] - lo[i] + 2, qhi[i] - qlo[i] + 2):
            if p > 0 and p not in ps:
                ps.append(p)
        periods.append(ps)
    seen = set()
    rng = range(dim)
    for per in itertools.islice(itertools.product(*periods), 12):
        out = []
        for tq in range(n):
            ct = inst.coords[tq]
            off = [ct[i] - c0[i] - qlo[i] for i in rng]
            v = 0
            for c, (bx, bz) in zip(sup_coords, letters):
                j = idx.get(tuple([(c[i] + off[i]) % per[i] + qlo[i] for i in rng]))
                if j is None:
                    v = -1
                    break
                if bx:
                    v ^= (1 << j)
                if bz:
                    v ^= (1 << (n + j))
            if v > 0 and v not in seen and pweight(n, v) == len(sup):
                seen.add(v)
                out.append(v)
        yield out


def pick_disjoint(sups: List[int], d: int, limit: int = 20000) -> Optional[List[int]]:
    """indices of d pairwise disjoint supports (depth-first, bounded)"""
    nodes = [0]

    def go(start: int, used: int, chosen: List[int]) -> Optional[List[int]]:
        if len(chosen) == d:
            return chosen
        for i in range(start, len(sups)):
            if sups[i] & used:
                continue
            nodes[0] += 1
            if nodes[0] > limit:
                return None
            r = go(i + 1, used | sups[i], chosen + [i])
            if r is not None:
                return r
        return None

    return go(0, 0, [])


def lighten(inst: Inst, v: int, sel: int, forbidden: int) -> Tuple[int, int]:
    """steepest descent: multiply by the generator (avoiding `forbidden`) that lowers the
    weight most, while the weight drops"""
    n = inst.n
    gens = [(i, g) for i, g in enumerate(inst.H) if not (supp(n, g) & forbidden)]
    w = pweight(n, v)
    while True:
        best = None
        for i, g in gens:
            w2 = pweight(n, v ^ g)
            if w2 < w and (best is None or w2 < best[0]):
                best = (w2, i, g)
        if best is None:
            return v, sel
        w, v, sel = best[0], v ^ best[2], sel ^ (1 << best[1])


def avoid_rep(inst: Inst, l: int, used: int) -> Optional[Tuple[int, int]]:
    """a representative of l + S whose support avoids `used` (linear algebra), lightened"""
    n, H = inst.n, inst.H
    mask = used | (used << n)
    # unknown c: (l xor sum c_i g_i) & mask == 0.  Eliminate on the restricted generators.
    red = Reducer([g & mask for g in H])
    res, sel = red.reduce(l & mask)
    if res:
        return None
    v = l
    for i in range(len(H)):
        if (sel >> i) & 1:
            v ^= H[i]
    assert v & mask == 0
    return lighten(inst, v, sel, used)


def _pack_translates(inst: Inst, red: Reducer, l: int, seed: int, seed_sel: int) -> Optional[List[int]]:
    """d disjoint members of l + S among the lattice translates of `seed` (itself in l + S)"""
    n, d = inst.n, inst.d
    cands: List[Tuple[int, int]] = [(seed, seed_sel)]
    for batch in translate_batches(inst, seed):
        grew = False
        for v in batch:
            if v == seed:
                continue
            res, sel = red.reduce(v ^ l)
            if res == 0:
                cands.append((v, sel))
                grew = True
        if not grew or len(cands) < d:
            continue
        cands.sort(key=lambda t: (pweight(n, t[0]), t[0]))
        sups = [supp(n, v) for v, _ in cands]
        pick = pick_disjoint(sups, d)
        if pick is not None:
            return [cands[i][1] for i in pick]
    return None


def packing_for_logical(inst: Inst, red: Reducer, l: int) -> Optional[List[int]]:
    """d selection masks c_j such that the l xor xorSelect(H, c_j) are pairwise disjoint"""
    n, d = inst.n, inst.d
    if d == 1:
        return [0]
    r = _pack_translates(inst, red, l, l, 0)
    if r is not None:
        return r
    # the listed representative may be bent: straighten it by a greedy descent first
    l0, s0 = lighten(inst, l, 0, 0)
    if l0 != l:
        r = _pack_translates(inst, red, l, l0, s0)
        if r is not None:
            return r
    # fallback: grow a family greedily with representatives solved for by linear algebra
    fam: List[Tuple[int, int]] = []
    used = 0
    v0, s0 = lighten(inst, l, 0, 0)
    fam.append((v0, s0))
    used |= supp(n, v0)
    while len(fam) < d:
        r = avoid_rep(inst, l, used)
        if r is None:
            return None
        v, sel = r
        if supp(n, v) & used or supp(n, v) == 0 and d > 1:
            return None
        fam.append((v, sel))
        used |= supp(n, v)
    return [s for _, s in fam]


# ---- exact packings of the periodic 6.6.6 colour code ------------------------------------------
# n = 18 L^2, d = 4 L: a packing has to use almost every qubit.  For a listed string of colour c it
# consists of the 3L lattice translates of the string that are equivalent to it (zig-zags through two
# of the three directions of c-edges) and the L closed straight lines through the c-edges of the
# third direction (6L qubits each), which are what is left over.  The translations are those of the
# face lattice (a, b) -> (x + 3a, y + 2a + 4b) modulo <(9L, 6L), (0, 12L)>, acting on the qubits through
# (face, corner index); the left-over lines are the connected components of the unused qubits under
# "lie on a common face".  Selection masks do not depend on a deformation (it acts qubit-wise on all
# rows), so they are computed on the undeformed code.

_SYM_CACHE: Dict[Tuple[str, Tuple[int, ...]], Optional[List[List[int]]]] = {}


def _color666toric_translations(inst: Inst) -> List[Dict[int, int]]:
    code, L = inst.code, inst.size[0]
    faces = [tuple(int(v) for v in s[:2]) for s in code.stabilizer_coordinates if int(s[2]) == 0]
    fset = set(faces)
    corners = {f: [tuple(int(v) for v in q) for q in code.get_stabilizer(f + (0,)).keys()] for f in faces}
    idx = inst.coord_index

    def canon(x, y):
        for k in range(-3, 4):
            for m in range(-3, 4):
                c = (x - 9 * L * k, y - 6 * L * k - 12 * L * m)
                if c in fset:
                    return c
        return None
    perms = []
    for a in range(3 * L):
        for b in range(3 * L):
            perm: Dict[int, int] = {}
            ok = True
            for f in faces:
                g = canon(f[0] + 3 * a, f[1] + 2 * a + 4 * b)
                if g is None:
                    ok = False
                    break
                for q, r in zip(corners[f], corners[g]):
                    if perm.setdefault(idx[q], idx[r]) != idx[r]:
                        ok = False
                        break
                if not ok:
                    break
            if ok and len(perm) == inst.n and len(set(perm.values())) == inst.n:
                perms.append(perm)
    return perms


def _symmetric_packing(inst: Inst, red: Reducer, l: int, perms, gen_supports) -> Optional[List[int]]:
    n, d = inst.n, inst.d
    lo = (1 << n) - 1
    x, z = l & lo, l >> n
    if x and z:
        return None
    sup = [q for q in range(n) if (supp(n, l) >> q) & 1]

    def mk(qs):
        v = 0
        for q in qs:
            v |= 1 << q
        return v if x else v << n
    cands: Dict[int, int] = {}
    for p in perms:
        v = mk(p[q] for q in sup)
        if v not in cands:
            res, sel = red.reduce(v ^ l)
            if res == 0:
                cands[v] = sel
    fam: List[int] = []
    used = 0
    for v, sel in sorted(cands.items()):
        sp = supp(n, v)
        if not sp & used:
            fam.append(sel)
            used |= sp
    rem = [q for q in range(n) if not (used >> q) & 1]
    remset = set(rem)
    adj: Dict[int, set] = {q: set() for q in rem}
    for g in gen_supports:
        qs = [q for q in g if q in remset]
        for a in qs:
            adj[a].update(b for b in qs if b != a)
    seen = set()
    for q in rem:
        if q in seen:
            continue
        comp, stack = [], [q]
        seen.add(q)
        while stack:
            u = stack.pop()
            comp.append(u)
            for w in adj[u]:
                if w not in seen:
                    seen.add(w)
                    stack.append(w)
        res, sel = red.reduce(mk(comp) ^ l)
        if res == 0:
            fam.append(sel)
    return fam[:d] if len(fam) >= d else None


def symmetric_packing_cert(cls: str, size: Tuple[int, ...]) -> Optional[List[List[int]]]:
    """exact packing for the classes that need one (Color666ToricCode), on the undeformed code"""
    key = (cls, tuple(size))
    if key in _SYM_CACHE:
        return _SYM_CACHE[key]
    out: Optional[List[List[int]]] = None
    if cls == 'Color666ToricCode':
        try:
            inst = Inst(cls, size)
            perms = _color666toric_translations(inst)
            red = Reducer(inst.H)
            gsup = [[q for q in range(inst.n) if (supp(inst.n, g) >> q) & 1] for g in inst.H]
            out = []
            for l in inst.LX + inst.LZ:
                sels = _symmetric_packing(inst, red, l, perms, gsup)
                if sels is None:
                    out = None
                    break
                out.append(sels)
        except Exception:
            out = None
    _SYM_CACHE[key] = out
    return out


def packing_cert(inst: Inst) -> Optional[List[List[int]]]:
    if inst.d * inst.d > inst.n and inst.d > 1:
        return None
    sym = symmetric_packing_cert(inst.cls, inst.size)
    if sym is not None and verify_packing(inst, sym):
        return sym
    red = Reducer(inst.H)
    out = []
    for l in inst.LX + inst.LZ:
        sels = packing_for_logical(inst, red, l)
        if sels is None:
            return None
        out.append(sels)
    return out


def verify_packing(inst: Inst, sels: List[List[int]]) -> bool:
    """Python mirror of the Lean `checkPacking` (used for self-checks only)"""
    n = inst.n
    logs = inst.LX + inst.LZ
    if len(sels) != len(logs):
        return False
    for l, ss in zip(logs, sels):
        if len(ss) != inst.d:
            return False
        used = 0
        for s in ss:
            v = l
            for i in range(len(inst.H)):
                if (s >> i) & 1:
                    v ^= inst.H[i]
            sp = supp(n, v)
            if sp & used:
                return False
            used |= sp
    return True


def verify_packing_flat(inst: Inst, flat: List[int]) -> bool:
    d = inst.d
    if d <= 0:
        return False
    return len(flat) == d * 2 * inst.k and verify_packing(inst, [flat[i:i + d] for i in range(0, len(flat), d)])


def is_css(inst: Inst) -> bool:
    lo = (1 << inst.n) - 1
    return all((g & lo) == 0 or (g >> inst.n) == 0 for g in inst.H)


def css_count(n: int, d: int) -> int:
    """number of pure X-type plus pure Z-type operators of weight < d"""
    return 2 * sum(comb(n, j) for j in range(0, d))


def find_cert(inst: Inst, budget: int = 0):
    """('packing', flat list of selection masks) | ('exhaustive', None) | ('css', None) | None.
    `budget`: largest number of candidates the exhaustive check may enumerate."""
    budget = budget or EXH_KERNEL_BUDGET
    cnt = exhaustive_count(inst.n, inst.d)
    # kernel cost of the enumeration: table construction + candidates
    steps = 2 * inst.n * (len(inst.H) + 2 * inst.k) + 5 * cnt
    if cnt <= budget and steps <= EXH_PREFER:
        return ('exhaustive', None)
    sels = packing_cert(inst)
    if sels is not None and verify_packing(inst, sels):
        return ('packing', [c for ss in sels for c in ss])
    if is_css(inst) and css_count(inst.n, inst.d) <= budget:
        return ('css', None)
    if cnt <= budget:
        return ('exhaustive', None)
    return None


# ------------------------------------------------------------------ emission

def lean_list(xs) -> str:
    return '[' + ', '.join(str(x) for x in xs) + ']'


def cert_lean(cert) -> str:
    if cert[0] == 'exhaustive':
        return '.exhaustive'
    if cert[0] == 'css':
        return '.exhaustiveCSS'
    return '.packing ' + lean_list(cert[1])


def emit_class(cls: str) -> Tuple[str, List[Dict]]:
    body, names, info = [], [], []
    for size in R.instance_sizes(cls):
        inst = Inst(cls, size)
        cert = find_cert(inst)
        rec = {'class': cls, 'size': list(size), 'n': inst.n, 'k': inst.k, 'd': inst.d,
               'kind': cert[0] if cert else None,
               'candidates_below_d': exhaustive_count(inst.n, inst.d) if inst.d <= 8 else None}
        info.append(rec)
        if cert is None:
            names.append('none')
        else:
            body.append(f'def {inst.name}_dist : DistCert := {cert_lean(cert)}\n')
            names.append(f'some {inst.name}_dist')
    src = (f'/- GENERATED by harness/regen_dist.py from /repo (panqec.codes.{cls}); do not edit.\n'
           '   Distance lower-bound certificates (untrusted search; checked by `checkDistance`). -/\n'
           'import PanqecVerif.Model.Dist\n'
           f'import PanqecVerif.Generated.Inst{cls}\n'
           f'namespace Panqec.Generated.{cls}\nopen Panqec\n\n' + '\n'.join(body) +
           '\n/-- one entry per entry of `all`; `none` = no certificate found -/\n'
           'def dists : List (Option DistCert) :=\n  [' + ', '.join(names) + ']\n'
           '\n/-- the instances of `all` that carry a certificate -/\n'
           'def certified : List (MaskCode × RankCert × DistCert) := attachCerts all dists\n'
           f'\nend Panqec.Generated.{cls}\n')
    return src, info


def regen_dist(classes=None) -> Dict:
    out = {'changed': [], 'instances': []}
    for cls in (classes or K.CLASSES):
        src, info = emit_class(cls)
        if R.write_if_changed(GEN_DIR / f'Dist{cls}.lean', src):
            out['changed'].append(cls)
        out['instances'].extend(info)
    return out


def instance_file(cls: str) -> str:
    return (f'import PanqecVerif.Generated.Dist{cls}\n'
            f'import PanqecVerif.Instances.{cls}\n'
            'import PanqecVerif.Proofs.Dist\n'
            'namespace Panqec.Instances\nopen Panqec\n\n'
            '/-- kernel evaluation of the distance-certificate checker on every certified instance -/\n'
            f'theorem {cls}_distcheck :\n'
            f'    (Generated.{cls}.certified.all fun q => checkDistance q.1 q.2.2) = true := by\n'
            '  decide +kernel\n\n'
            f'/-- for every certified {cls} instance the reported `d` is the true distance -/\n'
            f'theorem {cls}_distance : ∀ q ∈ Generated.{cls}.certified,\n'
            '    IsDistance q.1.n (q.1.stabs.map (unpackBits (2 * q.1.n))) q.1.d :=\n'
            f'  certified_sound _ _ {cls}_valid {cls}_distcheck\n\n'
            'end Panqec.Instances\n')


def write_instance_files():
    """the (static) instance theorem files; run once when a class is added"""
    for cls in K.CLASSES:
        R.write_if_changed(INST_DIR / f'Dist{cls}.lean', instance_file(cls))
    R.write_if_changed(INST_DIR / 'DistAll.lean',
                       ''.join(f'import PanqecVerif.Instances.Dist{c}\n' for c in K.CLASSES))


if __name__ == '__main__':
    import json
    import sys
    import time
    t0 = time.time()
    if '--instance-files' in sys.argv:
        write_instance_files()
    r = regen_dist()
    tot: Dict[str, int] = {}
    for i in r['instances']:
        tot[str(i['kind'])] = tot.get(str(i['kind']), 0) + 1
        if i['kind'] is None:
            print('uncertified', i)
    print(json.dumps({'changed': r['changed'], 'kinds': tot}), f'{time.time() - t0:.1f}s')
