"""MemoryBeliefPropagationDecoder (C05, C06): correspondence of its integer/boolean glue with
`Model/MbpDecoder.lean`.  The floating-point message passing is not modelled: the hard decision of
every iteration is read off the vector the implementation hands to `code.measure_syndrome`
(call-through spy on the code object), and the model's loop (break test, number of iterations,
final reverse-and-swap) is replayed on those decisions."""
from __future__ import annotations

import numpy as np

from harness.core import Stream
from harness.util import vec, stack
from harness.props import c05 as D

CASES = [('Toric2DCode', (2, 2), None), ('Toric2DCode', (2, 2), 'XZZX'), ('Toric2DCode', (2, 2), 'XY'),
         ('Planar2DCode', (2, 2), None), ('Planar2DCode', (2, 3), 'XY'), ('RotatedPlanar2DCode', (3, 3), 'XZZX'),
         ('Color666PlanarCode', (2, 2), None)]
THOROUGH_CASES = [('Toric2DCode', (2, 3), 'XY'), ('RotatedPlanar2DCode', (3, 3), None),
                  ('Planar2DCode', (3, 3), 'XZZX'), ('Toric3DCode', (2, 2, 2), None)]


def mbp_case(s: Stream, cname, size, cdef, direction, max_iter, errors, tag):
    from panqec.decoders import MemoryBeliefPropagationDecoder
    code = D.make_code(cname, size, cdef)
    em = D.make_noise(direction)
    n = code.n
    with D.quiet():
        dec = MemoryBeliefPropagationDecoder(code, em, 0.125, max_bp_iter=max_iter)
    H = D.H_text(code)
    real = code.measure_syndrome
    for (xs, zs) in errors:
        e = D.error_from(n, xs, zs)
        syn = np.asarray(real(e))
        before = syn.copy()
        calls = []

        def spy(v, _real=real, _calls=calls):
            _calls.append(np.array(v).copy())
            return _real(v)
        code.measure_syndrome = spy
        try:
            with D.quiet(), D.time_limit(60):
                c = dec.decode(syn)
            res = f'{len(calls)} {D.ivec(c)}'
        except Exception as ex:  # noqa: BLE001
            res = f'{len(calls)} ' + ('ERR UnboundLocalError' if type(ex).__name__ == 'UnboundLocalError'
                                      else f'EXC:{type(ex).__name__}')
        finally:
            del code.measure_syndrome
        if not np.array_equal(syn, before):
            res += ' INPUT-MODIFIED'
        recs = ';'.join(D.ivec(v) for v in calls) if calls else '-'
        s.add(f'dec.mbp {H} {n} {max_iter} {D.ivec(syn)} {recs}', res,
              {'decoder': 'MemoryBeliefPropagationDecoder', 'code': cname, 'size': list(size),
               'code_deformation': cdef, 'direction': list(direction), 'max_bp_iter': max_iter,
               'error': [xs, zs]}, nontrivial=bool(syn.any()), tag=tag)
    return dec, code


def mbp_stream(ctx, rng, name='mbp-glue') -> Stream:
    thorough = ctx.thorough
    s = Stream(name)
    for (cname, size, cdef) in CASES + (THOROUGH_CASES if thorough else []):
        code = D.make_code(cname, size, cdef)
        n = code.n
        for max_iter in ([0, 1, 2, 4, 8] if thorough else [0, 1, 3]):
            d = D.DIRECTIONS[int(rng.integers(0, 3))]
            em = D.make_noise(d)
            k = 1 if max_iter == 0 else (4 if thorough else 3)
            errs = [D.supports(e, n) for e in D.random_errors(code, em, rng, k, rates=(0.1, 0.25, 0.4))]
            errs.append([[int(rng.integers(0, n))], []])
            if max_iter:
                errs.append([[], []])
            dec, code2 = mbp_case(s, cname, size, cdef, d, max_iter, errs,
                                  f'{cname}:{cdef or "css"}:iter{max_iter}')
        # symplectic_to_pauli on the code's matrix
        s.add(f'dec.mbp.hpauli {D.H_text(code)}', stack(np.asarray(dec.H_pauli).astype(int).tolist()),
              {'fn': 'symplectic_to_pauli', 'code': cname, 'size': list(size), 'code_deformation': cdef},
              tag='hpauli')
    # pauli_to_symplectic on arbitrary small integer vectors (values outside 0..3 included)
    from panqec.decoders.belief_propagation.mbp_decoder import pauli_to_symplectic
    for _ in range(40 if thorough else 15):
        a = [int(x) for x in rng.integers(0, 6, int(rng.integers(1, 9)))]
        for rev in (False, True):
            s.add(f'dec.mbp.p2s {vec(a)} {int(rev)}', D.ivec(pauli_to_symplectic(np.array(a), reverse=rev)),
                  {'fn': 'pauli_to_symplectic', 'a': a, 'reverse': rev}, tag='p2s')
    return s.run()
