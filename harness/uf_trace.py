"""Step-granular tracing of panqec's union-find decoder internals
(`panqec/decoders/union_find/uf_support.py`) for the correspondence with the Lean model
`lean/PanqecVerif/Model/UnionFind.lean` (driver ops `uf.trace` / `uf.decode`).

Nothing in /repo is edited: the real `Support` / `Clustering_Tree` / `Peeling_Tree` run under
call-through wrappers (mock.patch) that record

* the iteration order of every Python `set` the algorithm iterates over and whose order can
  influence the result (`set(cluster_forest.values())` in `_smallest_invalid_cluster`, the
  boundary list in `Clustering_Tree.grow`, the fusion set in `Support.clustering`): the *schedule*.
  CPython's set order depends on hash-table history; the model does not guess it: it takes the
  recorded order as an input, checks that it is a permutation of the set it computed itself, and
  iterates in that order.  The theorems quantify over every schedule.
* the observable state after every growth step (chosen cluster, fusion set, `_H_to_grow`,
  `_s_parents` with its path-compression state, `_q_parents`, every cluster's root/size/parity/
  boundary list), the roots and the parent arrays after `_update_parents`, per peeling tree the
  member stabilizers/qubits, the spanning-tree matrix and the leaf list returned by `_build_tree`,
  per peeling round `parents / leaves / syndrome`, the peeled correction list (`C:`: the indices in the
  order `correction.extend` appended them, round by round - since the repair of `Peeling_Tree.peel` one
  index per syndrome-carrying leaf, `shared.argmax(axis=1)`; the `P:` line of a round gives the leaves and
  the syndrome before the round, so the number of indices per round is pinned too), the final vector.
"""
from __future__ import annotations

import contextlib
from typing import Any, Dict, List

import numpy as np


class UFTimeout(Exception):
    pass


def ints(xs) -> str:
    xs = [int(x) for x in xs]
    return ','.join(map(str, xs)) if xs else 'e'


def bits(xs) -> str:
    xs = [int(bool(x)) for x in xs]
    return ''.join(map(str, xs)) if xs else 'e'


def sched_text(sched: List[List[int]]) -> str:
    return ';'.join(ints(l) for l in sched) if sched else '-'


def rowmasks(M) -> str:
    """one integer per row: sum of 2^q over the nonzero columns q"""
    A = M.toarray() if hasattr(M, 'toarray') else np.asarray(M)
    out = []
    for r in A:
        v = 0
        for q in np.nonzero(r)[0]:
            v |= 1 << int(q)
        out.append(v)
    return ints(out)


class Trace:
    def __init__(self):
        self.sched: List[List[int]] = []
        self.steps: List[str] = []       # growth
        self.final: str = ''
        self.trees: Dict[int, List[str]] = {}
        self.result: str = ''
        self.cur_support = None
        self.pending = None

    def text(self) -> str:
        parts = list(self.steps)
        if self.final:
            parts.append(self.final)
        for r in sorted(self.trees):
            parts.extend(self.trees[r])
        parts.append(self.result)
        return ' '.join(parts)


def forest_text(clusters) -> str:
    cs = sorted(clusters, key=lambda c: int(c.get_root()))
    return '+'.join(f'{int(c.get_root())}/{int(c.get_size())}/{int(bool(c.is_odd()))}/'
                    f'{ints(sorted(int(b) for b in c.get_boundary()))}' for c in cs) if cs else 'e'


@contextlib.contextmanager
def uf_spies(tr: Trace, full: bool = True):
    from unittest import mock
    import panqec.decoders.union_find.uf_support as us

    real_smallest = us.Support.__dict__['_smallest_invalid_cluster'].__func__
    real_grow = us.Clustering_Tree.grow
    real_clustering = us.Support.clustering
    real_pt_init = us.Peeling_Tree.__init__
    real_peel = us.Peeling_Tree.peel
    real_upd = us.Peeling_Tree._update_syndrome

    def state_text(support, clusters):
        return (f'{forest_text(clusters)}:{ints(support._s_parents)}:{ints(support._q_parents)}:'
                f'{rowmasks(support._H_to_grow)}')

    def smallest(clts):
        order = [int(c.get_root()) for c in clts]          # iteration order of this very set object
        tr.sched.append(order)
        res = real_smallest(clts)
        if full:
            sup = tr.cur_support
            if tr.pending is not None and sup is not None:
                chosen, fusion = tr.pending
                tr.steps.append(f'G:{chosen}:{ints(sorted(fusion))}:{state_text(sup, clts)}')
            elif sup is not None:
                tr.steps.append(f'I:{state_text(sup, clts)}')
            tr.pending = None
        return res

    def grow(self):
        tr.sched.append([int(b) for b in self._boundary_list])
        fs = real_grow(self)
        order = [int(q) for q in fs]                         # `for q in fusion_set` iterates this object
        tr.sched.append(order)
        tr.pending = (int(self.get_root()), order)
        return fs

    def clustering(self):
        tr.cur_support = self
        roots = real_clustering(self)
        if full:
            tr.final = (f'R:{ints(sorted(int(r) for r in roots))}:{ints(self._s_parents)}:'
                        f'{ints(self._q_parents)}')
        return roots

    def pt_init(self, root, support, stabilizers_ind, qubits_ind):
        real_pt_init(self, root, support, stabilizers_ind, qubits_ind)
        if full:
            S = self._stablizers_connections.toarray().astype(bool)
            edges = [f'{int(p)}>{int(c)}' for p, c in zip(*np.nonzero(S))]
            tr.trees[int(root)] = [
                f'T:{int(root)}:{ints(stabilizers_ind)}:{ints(qubits_ind)}:'
                f'{",".join(edges) if edges else "e"}:{ints(self._leaves)}']

    def upd(self, parents, curr_leaves_ind, syndrome):
        if full:
            tr.trees[int(self._root)].append(
                f'P:{ints(parents)}:{ints(curr_leaves_ind)}:{bits(syndrome)}')
        return real_upd(self, parents, curr_leaves_ind, syndrome)

    def peel(self):
        c = real_peel(self)
        if full:
            tr.trees[int(self._root)].append(f'C:{ints(c)}')
        return c

    with mock.patch.object(us.Support, '_smallest_invalid_cluster', staticmethod(smallest)), \
            mock.patch.object(us.Clustering_Tree, 'grow', grow), \
            mock.patch.object(us.Support, 'clustering', clustering), \
            mock.patch.object(us.Peeling_Tree, '__init__', pt_init), \
            mock.patch.object(us.Peeling_Tree, '_update_syndrome', upd), \
            mock.patch.object(us.Peeling_Tree, 'peel', peel):
        yield tr


@contextlib.contextmanager
def time_limit(seconds):
    import signal

    def handler(signum, frame):
        raise UFTimeout()
    try:
        old = signal.signal(signal.SIGALRM, handler)
    except ValueError:
        yield
        return
    signal.setitimer(signal.ITIMER_REAL, seconds)
    try:
        yield
    finally:
        signal.setitimer(signal.ITIMER_REAL, 0)
        signal.signal(signal.SIGALRM, old)


ERR = {'IndexError': 'ERR IndexError', 'ValueError': 'ERR ValueError'}


def run_support(H, syndrome, full=True, timeout=5.0) -> Dict[str, Any]:
    """Run the real Support(syndrome, H).decode() under the spies.
    Returns {'sched': text, 'trace': text (full) , 'result': 'X:<bits>' | 'ERR …' | 'TIMEOUT'}."""
    import warnings
    from scipy.sparse import csr_matrix
    from panqec.decoders.union_find.uf_support import Support
    tr = Trace()
    Hc = csr_matrix(np.asarray(H, dtype='uint8'))
    s = np.asarray(syndrome, dtype='uint8').copy()
    with warnings.catch_warnings():
        warnings.simplefilter('ignore')
        with uf_spies(tr, full):
            try:
                with time_limit(timeout):
                    sup = Support(s, Hc)
                    c = sup.decode()
                tr.result = 'X:' + bits(c)
            except UFTimeout:
                tr.result = 'TIMEOUT'
            except Exception as e:  # noqa: BLE001
                tr.result = ERR.get(type(e).__name__, f'EXC:{type(e).__name__}')
    return {'sched': sched_text(tr.sched), 'trace': tr.text() if full else tr.result, 'result': tr.result,
            'n_sched': len(tr.sched)}
