"""RotatedToric3DCode: hand-written all-sizes Lean model (Model/Lattices/RotatedToric3DCode.lean)
against panqec/codes/surface_3d/_rotated_toric_3d_code.py (seam rules, defect lines for an odd L_x or
L_y, vertical faces dropped on the defect column, logical operators as comprehensions over
qubit_coordinates), and the all-sizes theorems of Properties/C01RotatedToric3DCode.lean.  The stream
`rank-family` evaluates the model's `rankFamily` (theorem `rank_family`, both parities of the family) on
the implementation's parity-check matrix: members are stabilizer locations, distinct, n - k of them, and
the selected rows have GF(2) rank n - k."""
from harness import lat_cubic3d as U

CLASS = 'RotatedToric3DCode'
LEAN_MODULES = ['PanqecVerif.Properties.C01RotatedToric3DCode']

EXTRA_SIZES = [(4, 4, 2), (4, 5, 2), (5, 4, 3), (6, 2, 2), (2, 6, 3), (6, 3, 2), (3, 6, 2), (4, 6, 1), (5, 6, 2)]
EXTRA_SIZES_THOROUGH = [(6, 6, 3), (7, 4, 2), (4, 7, 3), (8, 3, 2), (6, 5, 4)]


def supported(L):
    Lx, Ly, Lz = L
    return Lx >= 2 and Ly >= 2 and Lz >= 1 and not (Lx % 2 == 1 and Ly % 2 == 1)


def streams(ctx):
    extra = EXTRA_SIZES + (EXTRA_SIZES_THOROUGH if ctx.thorough else [])
    return U.streams_for(ctx, CLASS, supported, 3401, extra_sizes=extra)
