"""XCubeCode: hand-written all-sizes Lean model (Model/Lattices/XCubeCode.lean) against
panqec/codes/fractons/_xcube_code.py."""
from harness.lat3db_common import class_streams

CLASS = 'XCubeCode'
LEAN_MODULES = ['PanqecVerif.Properties.C01XCubeCode']

# sides of length 1 are outside the supported family (all L_i >= 2); the transcription (dict
# overwrite when two deltas wrap onto the same qubit) is compared there as well
EXTRA = [(1, 1, 1), (1, 2, 2), (2, 1, 3), (2, 2, 1), (1, 1, 2)]


def _bad_locations(code):
    Lx, Ly, Lz = code.size
    return [(0, 0, 0), (1, 1, 0), (2 * Lx + 1, 0, 0), (0, 2 * Ly + 1, 0), (-1, 0, 0), (0, 0, 2 * Lz + 1),
            (1, 0, 2 * Lz), (3, 1, 1), (0, 1, 1)]


def streams(ctx):
    return class_streams(ctx, CLASS, _bad_locations, extra_sizes=EXTRA)
