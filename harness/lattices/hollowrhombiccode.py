"""Hand-written all-sizes Lean model of HollowRhombicCode (Model/Lattices/HollowRhombicCode.lean)
tied to panqec/codes/surface_3d/_hollow_rhombic_code.py: the model driver's
`lat HollowRhombicCode <Lx> <Ly> <Lz> ...` ops against the live class, in index / dict-insertion order.

Peculiarities that are compared too: get_stabilizer / stabilizer_type do not test is_stabilizer (any
tuple of length 4 is a 'triangle' - IndexError unless -4 <= axis <= 3 -, any other length a 'cube' -
ValueError from the unpacking unless the length is 3); the triangle list depends on the NUMBER of keys
get_stabilizer returns; get_deformation knows 'Checkerboard XZZX' only and ignores keyword arguments.
The supported family is Lx, Ly >= 2, Lz >= 3; smaller sizes are run as well (the model transcribes
the code there too).  Sizes with a thin, wide hole (Lx = 3 and Ly, Lz >= 6; Ly = 4 and Lx >= 5,
Lz >= 6; Lz = 4 and Lx >= 5, Ly >= 6 - exactly the sizes of the predicate `Deficient`) are inside the
family but rank-deficient (known finding): the streams compare the getters and the matrices there as
well.

Rank clause: the model prints `rankFamily` (theorem `generators_independent`: independent for every
size; `generators_count`: n - k members for every size that is not deficient); the stream
`rank-family` evaluates it on the implementation's stabilizer_matrix on every run: distinct stabilizer
locations, n - k of them, GF(2) rank n - k on every non-deficient size; `independent` (rank = number
of members) on the deficient sizes."""
from __future__ import annotations

import itertools

CLASS = 'HollowRhombicCode'
LEAN_MODULES = ['PanqecVerif.Properties.C01HollowRhombicCode']

NAMES = ['Checkerboard XZZX', 'XZZX', 'checkerboard xzzx']
KWARGS = [{}, {'deformation_axis': 'x'}]

HOLE_SIZES = [(3, 4, 4), (4, 4, 4), (3, 5, 4), (4, 5, 5), (3, 4, 6), (5, 4, 4), (3, 6, 6)]
HOLE_SIZES_THOROUGH = [(5, 5, 5), (4, 6, 5), (6, 4, 5), (5, 4, 6), (3, 7, 6), (6, 6, 4)]
OUTSIDE = [(1, 1, 1), (1, 2, 3), (2, 1, 3), (2, 2, 1), (2, 2, 2), (1, 1, 3), (3, 3, 2), (3, 1, 4)]


def supported(L):
    return L[0] >= 2 and L[1] >= 2 and L[2] >= 3


def deficient(L):
    """the predicate `Deficient` of Properties/C01HollowRhombicCode.lean"""
    Lx, Ly, Lz = L
    return (Lx == 3 and Ly >= 6 and Lz >= 6) or (Ly == 4 and Lx >= 5 and Lz >= 6) or (Lz == 4 and Lx >= 5 and Ly >= 6)


def gap(L):
    """no size of the family is left out: every non-deficient size is counted (theorem generators_count)"""
    return False


RANK_SIZES = [(2, 2, 3), (2, 3, 4), (3, 3, 3), (3, 4, 4), (4, 4, 4), (3, 5, 4), (3, 5, 5), (4, 4, 5), (4, 5, 5),
              (3, 4, 6), (5, 4, 5), (3, 5, 6), (4, 4, 7), (4, 5, 7), (3, 6, 5), (5, 5, 5),
              (3, 6, 6), (5, 4, 6), (5, 6, 4), (4, 5, 4), (3, 5, 7)]
RANK_SIZES_THOROUGH = [(4, 6, 7), (5, 6, 6), (4, 5, 9), (6, 4, 5), (3, 9, 5), (4, 4, 9), (3, 7, 4), (6, 4, 4),
                       (3, 7, 7), (6, 4, 7), (6, 7, 4), (4, 7, 4), (5, 5, 4), (3, 5, 9)]


def sizes_for(ctx):
    top = 4 if ctx.thorough else 3
    fam = [L for L in itertools.product(range(2, top + 1), range(2, top + 1), range(3, top + 2)) if supported(L)]
    if not ctx.thorough:
        fam = [L for L in fam if L[0] * L[1] * L[2] <= 36]
    rng = ctx.np_rng(3501)
    extra = HOLE_SIZES + (HOLE_SIZES_THOROUGH if ctx.thorough else [])
    pool = [L for L in itertools.product(range(2, 7), range(2, 7), range(3, 8))
            if L not in fam and L not in extra and L[0] * L[1] * L[2] <= 100]
    picks = [pool[int(i)] for i in rng.choice(len(pool), 4 if ctx.thorough else 2, replace=False)]
    seen, out = set(), []
    for L in fam + extra + picks:
        if L not in seen:
            seen.add(L)
            out.append(L)
    return out


def probe_locations(size, rng, k=10):
    Lx, Ly, Lz = size
    locs = [(-1, 0, 0), (0, -1, 0), (1, -1, 1), (1, 1, 1), (3, 3, 3), (2 * Lx - 1, 2 * Ly - 1, 2 * Lz - 3),
            (1, -1, -1), (1, 2 * Ly - 1, 2 * Lz - 1), (1, 1, 3), (2 * Lx + 1, 1, 1), (0, 0, 0), (2, 2, 2),
            (0, 2, 0, 0), (4, 2, 0, 0), (-1, 2, 2, 2), (-4, 2, 0, 0), (-5, 2, 0, 0), (3, 2 * Lx, 0, 0),
            (1, 2, 2 * Ly, 2), (2, 2, 2, 2 * Lz), (0, 3, 3, 3), (1, 0), (1, 0, 0, 0, 0), (0,), ()]
    for _ in range(k):
        locs.append(tuple(int(v) for v in rng.integers(-2, 2 * max(size) + 3, 3)))
        locs.append((int(rng.integers(-5, 6)),) + tuple(int(v) for v in rng.integers(-2, 2 * max(size) + 3, 3)))
    return locs


def streams(ctx):
    fam = sizes_for(ctx)
    return [one_stream(ctx, 'supported', fam), one_stream(ctx, 'outside-family', OUTSIDE), rank_stream(ctx)]


def rank_stream(ctx):
    """`rankFamily` of the model evaluated on the implementation's parity-check matrix"""
    import panqec.codes as C
    from harness.core import Stream
    from harness.util import guarded
    from harness.lat_cubic3d import rank_post
    klass = getattr(C, CLASS)
    base = rank_post(klass)

    def post(op, out):
        res = base(op, out)
        size = tuple(int(t) for t in op.split()[2:5])
        if (deficient(size) or gap(size)) and res.startswith('members '):
            toks = res.split()
            return 'independent' if toks[1] == toks[3] else res
        return res
    s = Stream(f'lat-{CLASS}-rank-family', post=post)
    rng = ctx.np_rng(3509)
    sizes = list(RANK_SIZES) + (RANK_SIZES_THOROUGH if ctx.thorough else [])
    pool = [L for L in itertools.product(range(2, 7), range(2, 8), range(3, 9))
            if supported(L) and L not in sizes and L[0] * L[1] * L[2] <= (250 if ctx.thorough else 130)]
    sizes += [pool[int(i)] for i in rng.choice(len(pool), 6 if ctx.thorough else 3, replace=False)]
    for size in sizes:
        pre = f'lat {CLASS} {size[0]} {size[1]} {size[2]}'
        label = f'{CLASS}{tuple(size)}'
        code = klass(*size)
        if deficient(size) or gap(size):
            s.add(f'{pre} rankfamily', 'independent',
                  {'code': label, 'what': 'rankFamily is independent (theorem generators_independent) on a '
                   + ('deficient' if deficient(size) else 'gap') + ' size, evaluated on stabilizer_matrix'},
                  tag='deficient' if deficient(size) else 'gap')
        else:
            nk = guarded(lambda: code.n - code.k)
            s.add(f'{pre} rankfamily', f'members {nk} rank {nk}',
                  {'code': label, 'what': 'independent family of n-k generators (theorems generators_independent, '
                   'generators_count_partial) evaluated on stabilizer_matrix'},
                  tag='no-hole' if (size[0] <= 2 or size[1] <= 3 or size[2] <= 3) else
                  ('slab-hole-z' if size[2] == 4 and size[0] >= 4 and size[1] >= 5 else None) or
                  ('thick-hole' if (size[0] >= 4 and size[1] >= 5 and size[2] >= 5) else 'thin-hole'))
    return s.run()


def one_stream(ctx, fam, sizes):
    import panqec.codes as C
    from harness import codes as K
    from harness.core import Stream
    from harness.util import guarded, stack
    from harness.props.c02 import cstr, coords_str, op_str, ops_str
    from harness.color_common import deform_answer
    klass = getattr(C, CLASS)
    rng = ctx.np_rng(3502 + (0 if fam == 'supported' else 1))
    s = Stream(f'lattice-model-{CLASS}-{fam}')
    for size in sizes:
        pre = f'lat {CLASS} {size[0]} {size[1]} {size[2]}'
        label = f'{CLASS}{tuple(size)}'
        try:
            code = klass(*size)
            qs = list(code.qubit_coordinates)
            ss = list(code.stabilizer_coordinates)
        except Exception as e:  # noqa
            s.add(f'{pre} qubits', f'EXC:{type(e).__name__}', {'code': label}, tag='construct-fail')
            continue
        big = len(qs) > 150
        tag = 'n>150' if big else 'n<=150'

        def hmat():
            return stack(K.dense(code.stabilizer_matrix)) if code.n_stabilizers else '_'
        s.add(f'{pre} qubits', guarded(lambda: coords_str(qs)), {'code': label, 'what': 'qubit_coordinates'}, tag=tag)
        s.add(f'{pre} stabs', guarded(lambda: coords_str(ss)), {'code': label, 'what': 'stabilizer_coordinates'}, tag=tag)
        s.add(f'{pre} n', guarded(lambda: str(code.n)), {'code': label, 'what': 'n'}, tag=tag)
        s.add(f'{pre} logx', guarded(lambda: ops_str(code.get_logicals_x())), {'code': label, 'what': 'get_logicals_x'}, tag=tag)
        s.add(f'{pre} logz', guarded(lambda: ops_str(code.get_logicals_z())), {'code': label, 'what': 'get_logicals_z'}, tag=tag)
        if fam == 'supported':
            s.add(f'{pre} k', guarded(lambda: str(code.k)), {'code': label, 'what': 'k'}, tag=tag)
            s.add(f'{pre} hmat', guarded(hmat), {'code': label, 'what': 'stabilizer_matrix'}, tag='matrix')
            s.add(f'{pre} lxmat', guarded(lambda: stack(K.dense(code.logicals_x))),
                  {'code': label, 'what': 'logicals_x'}, tag='matrix')
            s.add(f'{pre} lzmat', guarded(lambda: stack(K.dense(code.logicals_z))),
                  {'code': label, 'what': 'logicals_z'}, tag='matrix')
        probes = probe_locations(size, rng)
        for loc in ss + qs[:4] + probes:
            s.add(f'{pre} stab {cstr(loc) or "_"}', guarded(lambda: op_str(code.get_stabilizer(loc))),
                  {'code': label, 'what': 'get_stabilizer', 'location': list(loc)},
                  nontrivial=loc in ss, tag='stab' if loc in ss else 'stab-off-lattice')
            s.add(f'{pre} type {cstr(loc) or "_"}', guarded(lambda: str(code.stabilizer_type(loc))),
                  {'code': label, 'what': 'stabilizer_type', 'location': list(loc)}, nontrivial=loc in ss,
                  tag='type' if loc in ss else 'type-off-lattice')
        for loc in qs + ss[:3] + ss[-3:] + probes:
            s.add(f'{pre} axis {cstr(loc) or "_"}', guarded(lambda: str(code.qubit_axis(loc))),
                  {'code': label, 'what': 'qubit_axis', 'location': list(loc)}, nontrivial=loc in qs, tag='axis')
            for name, kw in itertools.product(NAMES, KWARGS):
                if (kw or name != NAMES[0]) and loc not in qs[:5] and loc in qs:
                    continue   # keyword arguments are ignored / unknown names raise: probed on a subset
                s.add(f'{pre} deform {name.replace(" ", "_")} {cstr(loc) or "_"}', deform_answer(code, loc, name, kw),
                      {'code': label, 'what': 'get_deformation', 'location': list(loc), 'name': name,
                       'kwargs': kw}, nontrivial=(name == NAMES[0] and loc in qs), tag='deform')
    return s.run()
