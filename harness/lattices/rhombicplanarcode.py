"""RhombicPlanarCode: hand-written all-sizes Lean model (Model/Lattices/RhombicPlanarCode.lean)
against panqec/codes/surface_3d/_rhombic_planar_code.py."""
from harness.lat_rhombic import class_streams

CLASS = 'RhombicPlanarCode'
LEAN_MODULES = ['PanqecVerif.Properties.C01RhombicPlanarCode']

# outside the supported family (L_x, L_y >= 2, L_z >= 1) the transcription is compared as well
OUTSIDE = [(1, 1, 1), (1, 2, 2), (2, 1, 2), (1, 1, 3), (1, 3, 1), (3, 1, 3)]


def supported(L):
    return L[0] >= 2 and L[1] >= 2 and L[2] >= 1


def streams(ctx):
    return class_streams(ctx, CLASS, supported, (1, 4 if ctx.thorough else 3), OUTSIDE, 6, 3301, rank_family=True)
