"""Hand-written all-sizes Lean model of Color666ToricCode
(Model/Lattices/Color666ToricCode.lean) tied to
panqec/codes/color_2d/_color_666_toric_code.py."""
CLASS = 'Color666ToricCode'
LEAN_MODULES = ['PanqecVerif.Properties.C01Color666ToricCode']


def streams(ctx):
    from harness.color_common import lattice_streams
    return lattice_streams(ctx, CLASS, 3203)
