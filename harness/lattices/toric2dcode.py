"""Hand-written all-sizes Lean model of Toric2DCode (Model/Lattices/Toric2DCode.lean) tied to
panqec/codes/surface_2d/_toric_2d_code.py."""
CLASS = 'Toric2DCode'
LEAN_MODULES = ['PanqecVerif.Properties.C01Toric2DCode']


def streams(ctx):
    from harness.lat2d_common import lattice_streams
    return lattice_streams(ctx, CLASS, 3101)
