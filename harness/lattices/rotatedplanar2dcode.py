"""Hand-written all-sizes Lean model of RotatedPlanar2DCode
(Model/Lattices/RotatedPlanar2DCode.lean) tied to
panqec/codes/surface_2d/_rotated_planar_2d_code.py."""
CLASS = 'RotatedPlanar2DCode'
LEAN_MODULES = ['PanqecVerif.Properties.C01RotatedPlanar2DCode']


def streams(ctx):
    from harness.lat2d_common import lattice_streams
    return lattice_streams(ctx, CLASS, 3103)
