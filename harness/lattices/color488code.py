"""Hand-written all-sizes Lean model of Color488Code
(Model/Lattices/Color488Code.lean) tied to
panqec/codes/color_2d/_color_488_code.py."""
CLASS = 'Color488Code'
LEAN_MODULES = ['PanqecVerif.Properties.C01Color488Code']


def streams(ctx):
    from harness.color_common import lattice_streams
    return lattice_streams(ctx, CLASS, 3202)
