"""Hand-written all-sizes Lean model of Color666PlanarCode
(Model/Lattices/Color666PlanarCode.lean) tied to
panqec/codes/color_2d/_color_666_planar_code.py."""
CLASS = 'Color666PlanarCode'
LEAN_MODULES = ['PanqecVerif.Properties.C01Color666PlanarCode']


def streams(ctx):
    from harness.color_common import lattice_streams
    return lattice_streams(ctx, CLASS, 3201)
