"""Hand-written all-sizes Lean model of Color3DCode (Model/Lattices/Color3DCode.lean) tied to
panqec/codes/color_3d/_color_3d_code.py: the model driver's `lat Color3DCode <Lx> <Ly> <Lz> ...` ops
against the live class, in index / dict-insertion order.

Like the 2-D colour codes the qubit list is derived from the stabilizers (first-occurrence order is
part of what is compared) and the class has no get_deformation (the inherited method RETURNS a
NotImplementedError instance).  The supported family is all L_i even >= 2; odd sizes (outside the
family: the lattice is not 4-colourable, logical operators touch non-qubits) are run as well - the
model transcribes the code there too."""
from __future__ import annotations

import itertools

CLASS = 'Color3DCode'
LEAN_MODULES = ['PanqecVerif.Properties.C01Color3DCode']

NAMES = ['XZZX', 'XXZZ', 'nope']                    # the class knows none
KWARGS = [{}, {'deformation_axis': 'x'}, {'deformation_axis': 'q'}]

FAMILY = [(2, 2, 2), (2, 2, 4), (2, 4, 2), (4, 2, 2), (2, 4, 4), (4, 4, 2)]
FAMILY_BIG = [(4, 2, 4), (2, 6, 2)]
FAMILY_THOROUGH = [(4, 4, 4), (6, 2, 2), (2, 2, 6), (2, 4, 6), (6, 4, 2)]
OUTSIDE = [(1, 1, 1), (1, 2, 2), (2, 1, 2), (2, 2, 1), (3, 2, 2), (2, 3, 2), (2, 2, 3), (1, 1, 2), (3, 3, 3)]
OUTSIDE_THOROUGH = [(1, 2, 3), (3, 1, 2), (3, 4, 2), (2, 3, 4)]


def extra_locations(size):
    """3-tuples around the corners / seams of the lattice and a few far away"""
    Lx, Ly, Lz = size
    xs = (-1, 0, 1, 2, 4 * Lx - 1, 4 * Lx, 4 * Lx + 1, 4 * Lx + 2)
    ys = (-2, 0, 1, 3, 4 * Ly, 4 * Ly + 1, 4 * Ly + 3)
    zs = (-1, 0, 2, 3, 4 * Lz, 4 * Lz + 1, 4 * Lz + 4)
    return sorted(set(itertools.product(xs, ys, zs)))


def malformed_locations(ss, extra):
    """locations of the wrong shape or off the stabilizer lattice"""
    out = []
    for (x, y, z) in ss[:4] + ss[-4:]:
        out += [(x, y), (x, y, z, 0), (x + 1, y, z), (x, y + 1, z), (x, y, z + 1), (x, y, -z - 1)]
    out += list(extra)
    out += [(), (0,)]
    seen, res = set(), []
    for l in out:
        if l not in seen:
            seen.add(l)
            res.append(l)
    return res


def streams(ctx):
    fam = FAMILY + ((FAMILY_BIG + FAMILY_THOROUGH) if ctx.thorough else [])
    big = (FAMILY_THOROUGH[:1] if ctx.thorough else FAMILY_BIG[:1])
    outside = OUTSIDE + (OUTSIDE_THOROUGH if ctx.thorough else [])
    rng = ctx.np_rng(3401)
    # one more family member per run, chosen by the seed
    pool = [s for s in itertools.product((2, 4, 6), repeat=3) if s not in fam and s[0] * s[1] * s[2] <= 48]
    if pool:
        fam = fam + [pool[int(rng.integers(0, len(pool)))]]
    return [one_stream(ctx, 'supported', fam, big), one_stream(ctx, 'outside-family', outside, []),
            rank_stream(ctx, fam + list(big))]


def rank_stream(ctx, sizes):
    """`rank-family-z`: the model's `selCells` (theorem `z_generators_independent_partial`, the Z-type
    half of an independent family of generators: all cells but three) evaluated on the
    IMPLEMENTATION's parity-check matrix: membership, distinctness, count 2 LxLyLz - 3, GF(2) rank of
    the selected rows = their number."""
    import panqec.codes as C
    from harness.core import Stream
    from harness.lat_cubic3d import rank_post
    klass = getattr(C, CLASS)
    s = Stream(f'lat-{CLASS}-rank-family-z', post=rank_post(klass))
    for size in sizes:
        if min(size) < 2:
            continue
        m = 2 * size[0] * size[1] * size[2] - 3
        s.add(f'lat {CLASS} {size[0]} {size[1]} {size[2]} rankfamilyz', f'members {m} rank {m}',
              {'code': f'{CLASS}{tuple(size)}',
               'what': 'independent family of 2*LxLyLz-3 cell generators (theorem '
                       'z_generators_independent_partial) evaluated on stabilizer_matrix'},
              tag='rank-family-z')
    return s.run()


def one_stream(ctx, fam, sizes, bundle_only):
    import panqec.codes as C
    from harness import codes as K
    from harness.core import Stream
    from harness.util import guarded, stack
    from harness.props.c02 import cstr, coords_str, op_str, ops_str
    from harness.color_common import deform_answer
    klass = getattr(C, CLASS)
    s = Stream(f'lattice-model-{CLASS}-{fam}')
    for size in list(sizes) + list(bundle_only):
        pre = f'lat {CLASS} {size[0]} {size[1]} {size[2]}'
        label = f'{CLASS}{tuple(size)}'
        nq = 12 * size[0] * size[1] * size[2]
        big = size in bundle_only or nq > 200
        tag = 'n>200' if big else 'n<=200'
        try:
            code = klass(*size)
            qs = list(code.qubit_coordinates)
            ss = list(code.stabilizer_coordinates)
        except Exception as e:  # noqa
            s.add(f'{pre} qubits', f'EXC:{type(e).__name__}', {'code': label}, tag='construct-fail')
            continue

        def hmat():
            return stack(K.dense(code.stabilizer_matrix)) if code.n_stabilizers else '_'
        # the getters
        s.add(f'{pre} qubits', guarded(lambda: coords_str(qs)), {'code': label, 'what': 'qubit_coordinates'}, tag=tag)
        s.add(f'{pre} stabs', guarded(lambda: coords_str(ss)), {'code': label, 'what': 'stabilizer_coordinates'}, tag=tag)
        s.add(f'{pre} n', guarded(lambda: str(code.n)), {'code': label, 'what': 'n'}, tag=tag)
        s.add(f'{pre} logx', guarded(lambda: ops_str(code.get_logicals_x())), {'code': label, 'what': 'get_logicals_x'}, tag=tag)
        s.add(f'{pre} logz', guarded(lambda: ops_str(code.get_logicals_z())), {'code': label, 'what': 'get_logicals_z'}, tag=tag)
        if fam == 'supported':
            s.add(f'{pre} k', guarded(lambda: str(code.k)), {'code': label, 'what': 'k'}, tag=tag)
        # end to end: the matrices of the implementation against the generic code model applied to
        # the lattice model (the objects the all-sizes theorems speak about)
        if size not in bundle_only:
            s.add(f'{pre} hmat', guarded(hmat), {'code': label, 'what': 'stabilizer_matrix'}, tag='matrix')
            if fam == 'supported':
                # outside the family the logical operators touch non-qubits: `logicals_x` raises
                # KeyError on first access and serves a stale cache afterwards (object state, not
                # lattice definition) - the getters are compared instead
                s.add(f'{pre} lxmat', guarded(lambda: stack(K.dense(code.logicals_x))),
                      {'code': label, 'what': 'logicals_x'}, tag='matrix')
                s.add(f'{pre} lzmat', guarded(lambda: stack(K.dense(code.logicals_z))),
                      {'code': label, 'what': 'logicals_z'}, tag='matrix')
        extra = extra_locations(size) if not big else extra_locations(size)[::7]
        bad = malformed_locations(ss, extra)
        for loc in ss + bad:
            s.add(f'{pre} stab {cstr(loc) or "_"}', guarded(lambda: op_str(code.get_stabilizer(loc))),
                  {'code': label, 'what': 'get_stabilizer', 'location': list(loc)},
                  nontrivial=loc in ss, tag='stab' if loc in ss else 'stab-off-lattice')
            s.add(f'{pre} type {cstr(loc) or "_"}', guarded(lambda: str(code.stabilizer_type(loc))),
                  {'code': label, 'what': 'stabilizer_type', 'location': list(loc)}, nontrivial=loc in ss,
                  tag='type' if loc in ss else 'type-off-lattice')
        probe_q = qs if not big else qs[::5]
        for loc in probe_q + extra[::3] + ss[:2] + [(1, 2), (1, 2, 3, 4), ()]:
            s.add(f'{pre} axis {cstr(loc) or "_"}', guarded(lambda: str(code.qubit_axis(loc))),
                  {'code': label, 'what': 'qubit_axis', 'location': list(loc)}, nontrivial=False)
            for name, kw in itertools.product(NAMES, KWARGS):
                if kw and loc not in qs[:3]:
                    continue   # keyword arguments are ignored: probed on a subset only
                if name != NAMES[0] and loc not in qs[:6] and loc in qs:
                    continue
                s.add(f'{pre} deform {name} {cstr(loc) or "_"}', deform_answer(code, loc, name, kw),
                      {'code': label, 'what': 'get_deformation', 'location': list(loc), 'name': name,
                       'kwargs': kw}, nontrivial=False, tag='deform')
    return s.run()
