"""Hand-written all-sizes Lean model of Planar2DCode (Model/Lattices/Planar2DCode.lean) tied to
panqec/codes/surface_2d/_planar_2d_code.py."""
CLASS = 'Planar2DCode'
LEAN_MODULES = ['PanqecVerif.Properties.C01Planar2DCode']


def streams(ctx):
    from harness.lat2d_common import lattice_streams
    return lattice_streams(ctx, CLASS, 3102)
