"""RhombicToricCode: hand-written all-sizes Lean model (Model/Lattices/RhombicToricCode.lean)
against panqec/codes/surface_3d/_rhombic_toric_code.py."""
from harness.lat_rhombic import class_streams

CLASS = 'RhombicToricCode'
LEAN_MODULES = ['PanqecVerif.Properties.C01RhombicToricCode']

# outside the supported family (all L_i even >= 2) the transcription is compared as well: odd sides
# (inconsistent colouring across the boundary) and sides of length 1 (dict overwrite)
OUTSIDE = [(1, 1, 1), (1, 2, 2), (2, 2, 1), (2, 3, 2), (3, 3, 3), (2, 2, 3), (1, 2, 4)]


def supported(L):
    return all(l >= 2 and l % 2 == 0 for l in L)


def streams(ctx):
    return class_streams(ctx, CLASS, supported, (2, 4), OUTSIDE, 6, 3302, rank_family=True)
