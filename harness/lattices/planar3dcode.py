"""Planar3DCode: hand-written all-sizes Lean model (Model/Lattices/Planar3DCode.lean) against the
implementation, and the all-sizes theorems of Properties/C01Planar3DCode.lean."""
from harness import lat_cubic3d as U

CLASS = 'Planar3DCode'
LEAN_MODULES = ['PanqecVerif.Properties.C01Planar3DCode']


def supported(L):
    return all(l >= 1 for l in L)


def streams(ctx):
    return U.streams_for(ctx, CLASS, supported, 3201)
