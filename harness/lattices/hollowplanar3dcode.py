"""HollowPlanar3DCode: hand-written all-sizes Lean model (Model/Lattices/HollowPlanar3DCode.lean)
against panqec/codes/surface_3d/_hollow_planar_3d_code.py, and the all-sizes theorems of
Properties/C01HollowPlanar3DCode.lean.  The hole is non-empty from 3x2x2 on (qubits are removed from
3x3x3 on), so the random larger sizes of the shared size generator are complemented by a fixed list
of sizes with a proper cavity."""
from harness import lat_cubic3d as U

CLASS = 'HollowPlanar3DCode'
LEAN_MODULES = ['PanqecVerif.Properties.C01HollowPlanar3DCode']

EXTRA_SIZES = [(4, 3, 3), (3, 4, 3), (3, 3, 4), (4, 4, 4), (5, 3, 4), (4, 2, 5), (5, 4, 2), (6, 3, 3)]
EXTRA_SIZES_THOROUGH = [(5, 5, 5), (6, 4, 5), (4, 6, 3), (3, 5, 6), (7, 3, 4), (7, 5, 5)]


def supported(L):
    return all(l >= 1 for l in L)


def streams(ctx):
    extra = EXTRA_SIZES + (EXTRA_SIZES_THOROUGH if ctx.thorough else [])
    return U.streams_for(ctx, CLASS, supported, 3301, extra_sizes=extra)
