"""RotatedPlanar3DCode: hand-written all-sizes Lean model (Model/Lattices/RotatedPlanar3DCode.lean)
against panqec/codes/surface_3d/_rotated_planar_3d_code.py."""
from harness.lat3db_common import class_streams

CLASS = 'RotatedPlanar3DCode'
LEAN_MODULES = ['PanqecVerif.Properties.C01RotatedPlanar3DCode']


def _bad_locations(code):
    Lx, Ly, Lz = code.size
    return [(0, 0, 0), (-1, 1, 1), (1, 1, 2 * Lz + 1), (2 * Lx, 2 * Ly, 2), (2, 2, 2), (2, 0, 0), (1, 2, 1),
            (2 * Lx + 1, 1, 1), (2, 2 * Ly + 2, 1)]


def streams(ctx):
    return class_streams(ctx, CLASS, _bad_locations)
