"""Correspondence streams for the INTERNALS of the union-find decoder (C05):
the real `uf_support.Support` (run under the tracing wrappers of `harness/uf_trace.py`) against
the Lean model `Model/UnionFind.lean` (driver ops `uf.trace`, `uf.decode`).

Compared per case, as one canonical text: the state after every growth step (cluster chosen,
fusion set, `_H_to_grow`, `_s_parents` incl. its path-compression state, `_q_parents`, every
cluster's root/size/parity/boundary list), the roots and parent arrays after `_update_parents`,
per cluster the member stabilizers/qubits, the spanning tree and leaf list of `_build_tree`, per
peeling round parents/leaves/syndrome, the peeled index list, and the final correction vector.
The iteration order of every Python set the algorithm iterates (not a function of the set's
content) is recorded from the implementation and passed to the model, which checks that it is a
permutation of its own set (`SCHED-MISMATCH` otherwise).

A syndrome with an odd number of defects in a connected component of the Tanner graph (possible
whenever the matrix has columns of weight 1: planar codes) makes `Support.clustering` loop for
ever; the model reports divergence (fuel), the harness sees a watchdog TIMEOUT.  Such cases are
predicted from the graph and only a few are run.
"""
from __future__ import annotations

import itertools
from typing import List

import numpy as np

from harness.core import Stream
from harness.util import vec, stack
from harness.uf_trace import run_support

# (code, sizes quick, extra sizes thorough)
LATTICES = [
    ('Toric2DCode', [(2, 2), (3, 3), (2, 3), (3, 2), (4, 3), (3, 5), (4, 4), (5, 5), (2, 5), (6, 4)],
     [(6, 6), (7, 3), (2, 6), (5, 8)]),
    ('Planar2DCode', [(2, 2), (3, 3), (2, 4), (4, 3)], [(4, 4), (5, 3), (5, 5)]),
    ('RotatedPlanar2DCode', [(2, 2), (3, 3), (4, 4), (3, 5)], [(5, 5), (4, 6), (6, 5)]),
    # not in UnionFindDecoder.allowed_codes; Support accepts any matrix (hyperedges in one sector)
    ('Toric3DCode', [(2, 2, 2)], [(3, 3, 3), (2, 3, 2)]),
    ('Color666PlanarCode', [(3, 3)], [(5, 5)]),
]
EXHAUSTIVE = [('Toric2DCode', (2, 2), 3), ('Toric2DCode', (2, 3), 2), ('Toric2DCode', (3, 2), 2),
              ('Toric2DCode', (3, 3), 2), ('Planar2DCode', (2, 2), 2), ('RotatedPlanar2DCode', (3, 3), 2)]


def sectors(code):
    """the two matrices UnionFindDecoder.decode builds Support objects from"""
    return [('Hz', np.asarray(code.Hz.toarray(), dtype='uint8')),
            ('Hx', np.asarray(code.Hx.toarray(), dtype='uint8'))]


def components(H: np.ndarray) -> List[int]:
    """component label of every row of the graph 'rows sharing a nonzero column'"""
    m = H.shape[0]
    lab = list(range(m))

    def find(a):
        while lab[a] != a:
            lab[a] = lab[lab[a]]
            a = lab[a]
        return a
    for q in range(H.shape[1]):
        rows = np.nonzero(H[:, q])[0]
        for r in rows[1:]:
            lab[find(int(r))] = find(int(rows[0]))
    return [find(a) for a in range(m)]


def diverges(H: np.ndarray, s: np.ndarray) -> bool:
    """an odd number of defects in some connected component: no cluster of that component can
    ever become even"""
    comp = components(H)
    par = {}
    for i, x in enumerate(s):
        if x:
            par[comp[i]] = par.get(comp[i], 0) ^ 1
    return any(par.values())


UNEXPECTED_TIMEOUTS = [0]


class Budget:
    def __init__(self, n_div):
        self.div = n_div


def add_case(s: Stream, hname: str, H: np.ndarray, syn: np.ndarray, desc, tag, budget: Budget,
             full=True, from_error=True):
    div = diverges(H, syn)
    if div:
        if budget.div <= 0:
            return
        budget.div -= 1
    # an implementation that no longer terminates on well-formed inputs would otherwise cost the full
    # watchdog on every case: after a few unexpected time-outs the limit drops (the stream is broken anyway,
    # the oracle looks for the failing input)
    r = run_support(H, syn, full=full and not div,
                    timeout=0.6 if div else (20.0 if UNEXPECTED_TIMEOUTS[0] < 4 else 1.0))
    if r['result'] == 'TIMEOUT' and not div:
        UNEXPECTED_TIMEOUTS[0] += 1
    if r['result'] == 'TIMEOUT':
        sched = ';'.join(r['sched'].split(';')[:400])
        s.add(f'uf.decode ${hname} {vec(syn)} {sched}', 'TIMEOUT', desc, nontrivial=True,
              tag=tag + ':diverges')
    else:
        op = 'uf.trace' if full else 'uf.decode'
        impl = r['trace']
        # the proved statement, observed on the implementation: on a closed multigraph (parallel edges
        # allowed) the answer to the syndrome of an error has that syndrome
        # (Properties/C05UnionFind.uf_decode_total)
        if from_error and classify(H) in ('closed', 'closedmulti'):
            res = r['result']
            ok = res.startswith('X:') and np.array_equal(
                (H.astype(int) @ np.array([int(ch) for ch in res[2:]], dtype=int)) % 2, syn.astype(int) % 2)
            if not ok:
                impl += ' IMPLEMENTATION-CONTRADICTS-uf_decode_total'
        s.add(f'{op} ${hname} {vec(syn)} {r["sched"]}', impl, desc,
              nontrivial=bool(np.any(syn)), tag=tag)


def classify(H: np.ndarray) -> str:
    """independent (numpy) evaluation of the hypotheses of Properties/C05UnionFind.lean, most special
    first: 'closed' (0/1, columns of weight 0 or 2, no two rows sharing two columns), 'closedmulti'
    (columns of weight 0 or 2, two rows sharing fewer than 256 columns: parallel edges allowed),
    'graphlike' (columns of weight <= 2, no parallel edges), 'multigraph' (columns of weight <= 2,
    fewer than 256 parallel edges), 'none'"""
    H = np.asarray(H).astype(int)
    if H.size and not np.all((H == 0) | (H == 1)):
        return 'none'
    w = H.sum(axis=0) if H.size else np.zeros(H.shape[1], dtype=int)
    if np.any(w > 2):
        return 'none'
    G = H @ H.T
    np.fill_diagonal(G, 0)
    if np.any(G >= 256):
        return 'none'
    simple = not np.any(G > 1)
    if not np.any(w == 1):
        return 'closed' if simple else 'closedmulti'
    return 'graphlike' if simple else 'multigraph'


def make(name, size):
    from panqec.config import CODES
    return CODES[name](*size)


def streams(ctx) -> List[Stream]:
    rng = ctx.np_rng(505)
    thorough = ctx.thorough
    out = []

    # --- every error of weight <= w on tiny lattices (one case per distinct syndrome), full trace
    s = Stream('uf-internals-exhaustive-low-weight')
    budget = Budget(6 if thorough else 3)
    for cname, size, w in EXHAUSTIVE:
        code = make(cname, size)
        for sec, H in sectors(code):
            hname = f'E{cname}{"x".join(map(str, size))}{sec}'
            s.add(f'set {hname} {stack(H.tolist())}', 'ok', nontrivial=False)
            seen = set()
            n = H.shape[1]
            for k in range(0, (w if thorough or n <= 12 else min(w, 2)) + 1):
                for supp in itertools.combinations(range(n), k):
                    e = np.zeros(n, dtype='uint8')
                    e[list(supp)] = 1
                    syn = (H @ e) % 2
                    key = bytes(syn)
                    if key in seen:
                        continue
                    seen.add(key)
                    add_case(s, hname, H, syn, {'code': cname, 'size': list(size), 'sector': sec,
                                                'error': [int(q) for q in supp]},
                             f'{cname}{"x".join(map(str, size))}', budget)
    out.append(s.run())

    # --- random errors on lattices of several sizes (rectangular included), full trace
    s = Stream('uf-internals-random-errors')
    budget = Budget(6 if thorough else 3)
    for cname, quick, extra in LATTICES:
        for size in quick + (extra if thorough else []):
            code = make(cname, size)
            for sec, H in sectors(code):
                hname = f'R{cname}{"x".join(map(str, size))}{sec}'
                s.add(f'set {hname} {stack(H.tolist())}', 'ok', nontrivial=False)
                n = H.shape[1]
                k = (8 if thorough else 3) if n <= 60 else (4 if thorough else 2)
                for i in range(k):
                    p = [0.04, 0.1, 0.2, 0.35][i % 4]
                    for attempt in range(8):
                        e = (rng.random(n) < p).astype('uint8')
                        if i % 4 == 0 and not e.any():
                            e[int(rng.integers(0, n))] = 1
                        if attempt >= 2:          # closed chains only: columns of weight 2
                            e = e & (H.sum(axis=0) == 2).astype('uint8')
                        syn = (H @ e) % 2
                        if budget.div > 0 or not diverges(H, syn):
                            break
                    add_case(s, hname, H, syn, {'code': cname, 'size': list(size), 'sector': sec,
                                                'error': [int(q) for q in np.nonzero(e)[0]]},
                             f'{cname}', budget)
    out.append(s.run())

    # --- dense syndromes on larger tori (sides >= 6): long chains of cluster merges A -> B -> C, deep
    #     parent chains for find_root / _update_parents, several peeling trees sharing the Support state
    s = Stream('uf-internals-dense-large-tori')
    budget = Budget(0)
    big = [(7, 7), (6, 9), (8, 8), (9, 7)] + ([(10, 10), (12, 8), (7, 11)] if thorough else [])
    for size in big:
        code = make('Toric2DCode', size)
        for sec, H in sectors(code):
            hname = f'D{"x".join(map(str, size))}{sec}'
            s.add(f'set {hname} {stack(H.tolist())}', 'ok', nontrivial=False)
            n = H.shape[1]
            for p in (0.12, 0.16, 0.2):
                for rep in range(5 if thorough else 1):
                    e = (rng.random(n) < p).astype('uint8')
                    syn = (H @ e) % 2
                    add_case(s, hname, H, syn, {'code': 'Toric2DCode', 'size': list(size), 'sector': sec,
                                                'error': [int(q) for q in np.nonzero(e)[0]]},
                             f'{size[0]}x{size[1]}:p={p}', budget)
    out.append(s.run())

    # --- several separate clusters: errors of weight 2-4 on pairwise non-adjacent qubits of medium tori
    #     (each qubit creates its own cluster; several Peeling_Tree objects per decode)
    s = Stream('uf-internals-separate-clusters')
    budget = Budget(0)
    for size in [(5, 5), (4, 4), (5, 4), (6, 5)]:
        code = make('Toric2DCode', size)
        for sec, H in sectors(code):
            hname = f'S{"x".join(map(str, size))}{sec}'
            s.add(f'set {hname} {stack(H.tolist())}', 'ok', nontrivial=False)
            n = H.shape[1]
            A = (H.T.astype(int) @ H.astype(int)) > 0          # qubits sharing a stabilizer
            seen = set()
            want = (400 if size == (5, 5) else 60) if thorough else (24 if size == (5, 5) else 6)
            tries = 0
            while len(seen) < want and tries < 50 * want:
                tries += 1
                w = int(rng.integers(2, 5))
                qs = sorted(int(q) for q in rng.choice(n, w, replace=False))
                if any(A[a, b] for i, a in enumerate(qs) for b in qs[i + 1:]):
                    continue
                if tuple(qs) in seen:
                    continue
                seen.add(tuple(qs))
                e = np.zeros(n, dtype='uint8')
                e[qs] = 1
                syn = (H @ e) % 2
                add_case(s, hname, H, syn, {'code': 'Toric2DCode', 'size': list(size), 'sector': sec,
                                            'error': qs}, f'{size[0]}x{size[1]}:weight{w}', budget)
    out.append(s.run())

    # --- which lattices satisfy the hypotheses of the theorems (closedGraph / closedMultigraph / graphLike /
    #     multigraphLike), evaluated by the compiled model and independently here; the expected class per
    #     family is part of the claim: Toric2DCode with both sides >= 3 is a closed simple graph in both
    #     sectors, a side of length 2 gives parallel edges (closed multigraph: correct since the repair of
    #     Peeling_Tree.peel, the former finding D15), planar codes have dangling edges
    s = Stream('uf-internals-hypothesis-classes')
    sizes = {'Toric2DCode': [(2, 2), (2, 3), (3, 2), (3, 3), (3, 4), (4, 4), (5, 3), (2, 5), (6, 6), (7, 4)]
             + ([(8, 8), (9, 5), (10, 10)] if thorough else []),
             'Planar2DCode': [(2, 2), (3, 3), (4, 3)], 'RotatedPlanar2DCode': [(3, 3), (4, 4), (3, 5)],
             'Toric3DCode': [(2, 2, 2), (3, 3, 3)]}
    for cname, szs in sizes.items():
        for size in szs:
            code = make(cname, size)
            for sec, H in sectors(code):
                cls = classify(H)
                if cname == 'Toric2DCode':
                    expect = 'closed' if min(size) >= 3 else 'closedmulti'
                    if cls != expect:     # the claim about the allowed lattices no longer holds
                        cls = f'{cls} (expected {expect} for {cname}{size})'
                s.add(f'uf.class {stack(H.tolist())}', cls,
                      {'code': cname, 'size': list(size), 'sector': sec}, nontrivial=True,
                      tag=f'{cname}:{cls}')
                if cname == 'Toric2DCode':
                    # the subject of Properties/C05UnionFindToric.lean: the sector matrix of the matrix
                    # assembled from the all-sizes lattice MODEL is the matrix the implementation hands to
                    # Support, and it is in the class the theorems state for this size
                    s.add(f'uf.toric {size[0]} {size[1]} {sec[1].lower()}', f'{cls} {stack(H.tolist())}',
                          {'code': cname, 'size': list(size), 'sector': sec, 'via': 'lattice model'},
                          nontrivial=True, tag=f'{cname}:model-sector:{cls}')
    out.append(s.run())

    # --- arbitrary small matrices: simple graphs, parallel edges, dangling edges (weight-1 columns),
    #     empty columns, hyperedges; syndromes of errors and (1 in 7) arbitrary syndromes; every fourth
    #     weight-2 matrix gets duplicated columns so that parallel edges (closed multigraphs) are frequent
    s = Stream('uf-internals-random-matrices')
    budget = Budget(8 if thorough else 3)
    for t in range(240 if thorough else 60):
        m = int(rng.integers(1, 8))
        n = int(rng.integers(1, 11))
        mode = t % 3
        H = np.zeros((m, n), dtype='uint8')
        for q in range(n):
            w = [2, int(rng.integers(0, 3)), int(rng.integers(0, 5))][mode]
            rows = rng.choice(m, min(w, m), replace=False)
            H[rows, q] = 1
        if t % 4 == 1 and n >= 2:
            for q in range(1, n, 2):          # parallel edges: every odd column repeats its left neighbour
                if rng.random() < 0.6:
                    H[:, q] = H[:, q - 1]
        for attempt in range(8):
            e = (rng.random(n) < 0.45).astype('uint8')
            syn = (H @ e) % 2
            if t % 7 == 0:
                syn = (rng.random(m) < 0.4).astype('uint8')
            if budget.div > 0 or not diverges(H, syn):
                break
        hname = f'M{t}'
        s.add(f'set {hname} {stack(H.tolist())}', 'ok', nontrivial=False)
        s.add(f'uf.class ${hname}', classify(H), {'H': H.tolist()}, nontrivial=False)
        add_case(s, hname, H, syn, {'H': H.tolist(), 'syndrome': [int(x) for x in syn]},
                 ['weight2-columns', 'weight<=2-columns', 'hyperedges'][mode], budget,
                 from_error=(t % 7 != 0))
    out.append(s.run())
    return out
