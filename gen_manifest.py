#!/usr/bin/env python3
"""Regenerate MANIFEST.json from the per-property harness modules."""
import importlib, json, sys, os
sys.path.insert(0, os.path.dirname(os.path.abspath(__file__)))
ALL = [f'C{i:02d}' for i in range(1, 21)]
checks, na = [], []
for pid in ALL:
    path = f'harness/props/{pid.lower()}.py'
    if not os.path.exists(path) or not os.path.exists(f'lean/PanqecVerif/Properties/{pid}.lean'):
        na.append({'property_id': pid, 'reason': 'check under construction in this session (see DESIGN.md section 9 build order); not yet claimed'})
        continue
    src = open(path).read()
    ns = {}
    # read metadata constants without importing panqec
    import ast
    tree = ast.parse(src)
    for node in tree.body:
        if isinstance(node, ast.Assign) and len(node.targets) == 1 and isinstance(node.targets[0], ast.Name):
            try:
                ns[node.targets[0].id] = ast.literal_eval(node.value)
            except Exception:
                pass
    checks.append({
        'property_id': pid,
        'quick_cmd': f'./check {pid} --tier quick',
        'thorough_cmd': f'./check {pid} --tier thorough',
        'evidence_file': f'evidence/{pid}.json',
        'replay_cmd_template': f'./check {pid} --replay {{path}}',
        'engine': 'lean4-proof+correspondence',
        'level_claimed': {'category': ns.get('LEVEL', 'proof'), 'text': ns['LEVEL_TEXT'],
                          'design_ref': ns.get('DESIGN_REF', f'DESIGN.md section 5 {pid}')},
        'level_note': ns['LEVEL_NOTE'],
        'technique': ns.get('TECHNIQUE', 'Lean 4 machine-checked proof over a hand-written model tied to the code by a differential correspondence check'),
    })
m = {
    'version': 1,
    'setup_cmd': 'cd lean && lake build PanqecVerif panqec_model',
    'hooks': {'guard': 'PANQEC_VERIF', 'enable': 'no source hooks: instrumentation is installed from the harness process (mock.patch spies, stub RNGs, crash injection); checks export PANQEC_VERIF=1 for uniformity',
              'baseline_off_cmd': 'cd /repo && /venv/bin/python -m pytest -ra -q -p no:cacheprovider --timeout=900 --continue-on-collection-errors',
              'source_commits': [], 'add_only': True},
    'engines': [{'name': 'lean4-proof+correspondence', 'path': 'lean/ harness/ check',
                 'serves_properties': [c['property_id'] for c in checks],
                 'kind_free_text': 'Lean 4 theorems about an executable model (lean/PanqecVerif), audited axioms; model tied to /repo by regenerated tables and a differential correspondence run of the compiled model driver against the implementation; failing-input search on the implementation for replays'}],
    'checks': checks,
    'not_applicable': na,
    'notes': 'See DESIGN.md. Exit 2 = tool failure/timeout (never a VIOLATION).',
}
json.dump(m, open('MANIFEST.json', 'w'), indent=1)
print(len(checks), 'checks,', len(na), 'not yet claimed')
