#!/bin/bash
# new_agent_wt.sh <name>: scratch worktree of /verif on branch ag_<name> at /tmp/ag_<name>, with a copy of the
# Lean build output so that the first `lake build` there is incremental.  Merge back with merge_agent.sh ag_<name>.
set -e
n="$1"; cd /verif
git worktree add -q /tmp/ag_$n -b ag_$n
mkdir -p /tmp/ag_$n/lean
cp -a /verif/lean/.lake /tmp/ag_$n/lean/.lake
echo /tmp/ag_$n
