#!/usr/bin/env python3
"""Record the source fingerprints of the current /repo as the green state (run after every
commit to /repo made by us, on a tree where all checks pass)."""
import json, sys, os
sys.path.insert(0, os.path.dirname(os.path.abspath(__file__)))
from harness import core
fp = {f'C{i:02d}': core.property_fingerprint(f'C{i:02d}') for i in range(1, 21)}
fp['_files'] = core.repo_file_hashes()
core.FINGERPRINTS.write_text(json.dumps(fp, indent=1))
print({k: v for k, v in fp.items() if k != '_files'})
