import PanqecVerif.Model.Dist
open Panqec
set_option maxRecDepth 1000000
def sumTo2 : Nat → Nat → Nat
  | 0, acc => acc
  | n+1, acc => sumTo2 n (acc ^^^ (n * 2654435761))
theorem t2 : sumTo2 10000 0 != 1 := by decide +kernel
