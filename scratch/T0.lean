import PanqecVerif.Model.Dist
