import PanqecVerif.Model.Dist
import PanqecVerif.Generated.InstToric3DCode
open Panqec
set_option maxRecDepth 100000
def c := Generated.Toric3DCode.i3_3_3
def tblOnly (c : MaskCode) : Bool :=
  forceNat c.n fun n =>
  forceList (effRows c) fun rows =>
  forcePairs (effTableAt rows n n) fun tbl => tbl.length == n
set_option trace.profiler true in
theorem t1 : tblOnly c = true := by decide +kernel
