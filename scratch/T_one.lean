import PanqecVerif.Model.Dist
import PanqecVerif.Generated.InstToric2DCode
open Panqec
set_option maxRecDepth 100000
def cert : DistCert := .exhaustive
set_option trace.profiler true in
theorem t : checkDistance Generated.Toric2DCode.i3_3 cert = true := by decide +kernel
