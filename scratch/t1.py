import sys, subprocess, time
sys.path[:0]=['/repo','/tmp/ag_dist']
from harness import regen_dist as D
def L(xs): return '['+', '.join(map(str,xs))+']'
cls=sys.argv[1]; size=tuple(int(x) for x in sys.argv[2].split(',')); kind=sys.argv[3]; to=sys.argv[4] if len(sys.argv)>4 else '120'
inst=D.Inst(cls,size)
nm=f'Generated.{cls}.{inst.name}'
out=['import PanqecVerif.Model.Dist',f'import PanqecVerif.Generated.Inst{cls}','open Panqec','set_option maxRecDepth 100000']
if kind=='pk':
    p=D.packing_cert(inst)
    out.append('def cert : DistCert := .packing ' + L([x for s in p for x in s]))
else:
    out.append('def cert : DistCert := .exhaustive')
out.append('set_option trace.profiler true in')
out.append(f'theorem t : checkDistance {nm} cert = true := by decide +kernel')
open('/tmp/ag_dist/scratch/T_one.lean','w').write('\n'.join(out)+'\n')
t=time.time()
r=subprocess.run(['timeout',to,'lake','env','lean','../scratch/T_one.lean'],cwd='/tmp/ag_dist/lean',capture_output=True,text=True)
print(cls,size,kind,'n',inst.n,'d',inst.d,'cnt',D.exhaustive_count(inst.n,inst.d),'rc',r.returncode,f'{time.time()-t:.1f}s',[l for l in (r.stdout+r.stderr).splitlines() if "Kernel" in l or "error" in l][:3])
